import VModel.Bincode
/-!
# VModel.Kytea — model of `kytea_model.rs`

* `Rd` — a reader over a byte list (`&mut &[u8]`): value and rest, or the outcome of the failing step.
  Every `utils::read_*` is a `read_exact`: short input ↦ `.err .io`.
* `readConfig`, `readLinear`, `readLookup`, `readDict`, `readModelTagEntry`, `readProbTagEntry`, `readKytea`
  mirror the record structure of `KyteaModel::read`, with the same failure points
  (`String::from_utf8` ↦ `.err .utf8`, `read_line` on invalid UTF-8 ↦ `.err .io`, `char_map[cidx - 1]` ↦ `.panic`).
* `dumpItems` — `Dictionary::dump_items` with explicit stack and fuel (the Rust loop does not terminate on cyclic tables).
* `convert` — `impl TryFrom<KyteaModel> for Model`, with every panic site.
* `AbsKytea`, `encodeKytea`, `expectedModel`, `reprKytea` — the harness's abstract description, its independent encoder,
  the model the file is meant to encode, and the record structure the reader must deliver for it.
-/
namespace V.Ky
open V.Bin (Bytes leBytes leValue utf8Encode utf8Decode?)

/-! ## readers -/

/-- a reader consumes a prefix of its input and returns the rest -/
def Rd (α : Type) : Type := Bytes → Res (α × Bytes)

namespace Rd
variable {α β : Type}

protected def pure (a : α) : Rd α := fun bs => .ok (a, bs)

protected def bind (d : Rd α) (f : α → Rd β) : Rd β := fun bs =>
  match d bs with
  | .ok (a, r) => f a r
  | .err e => .err e
  | .panic s => .panic s
  | .ub s => .ub s

instance : Monad Rd where
  pure := Rd.pure
  bind := Rd.bind

def fail (e : Err) : Rd α := fun _ => .err e
def panic (s : String) : Rd α := fun _ => .panic s

/-- counted repetition (`for _ in 0..n { v.push(read()?) }`) -/
def rep (d : Rd α) : Nat → Rd (List α)
  | 0 => Rd.pure []
  | n + 1 => Rd.bind d fun x => Rd.bind (rep d n) fun xs => Rd.pure (x :: xs)
end Rd

/-- `read_exact` of `k` bytes -/
def takeBytes (k : Nat) : Rd Bytes := fun bs =>
  if k ≤ bs.length then .ok (bs.take k, bs.drop k) else .err .io

/-- `u8` / `u16` / `u32::from_le_bytes` after `read_exact` -/
def readLE (k : Nat) : Rd Nat := fun bs =>
  if k ≤ bs.length then .ok (leValue (bs.take k), bs.drop k) else .err .io

def readU8 : Rd Nat := readLE 1
def readU16 : Rd Nat := readLE 2
def readU32 : Rd Nat := readLE 4

def toI16 (n : Nat) : Int := if n < 32768 then (n : Int) else (n : Int) - 65536

def readI16 : Rd Int := Rd.bind (readLE 2) fun n => Rd.pure (toI16 n)

/-- an `f64` is 8 opaque bytes -/
def readF64 : Rd Bytes := takeBytes 8

def readBool : Rd Bool := Rd.bind readU8 fun n => Rd.pure (n != 0)

/-- the bytes up to and including the first `d` (or everything when there is none), and the rest -/
def splitAfter (d : UInt8) : Bytes → Bytes × Bytes
  | [] => ([], [])
  | b :: r => if b = d then ([b], r) else ((b :: (splitAfter d r).1), (splitAfter d r).2)

/-- `BufRead::read_until(d, …)`: never fails on a byte slice -/
def readUntil (d : UInt8) : Rd Bytes := fun bs => .ok (splitAfter d bs)

/-! ## the record structure -/

structure KConfig where
  modelTag : List Char
  doWs : Bool
  doTags : Bool
  nTags : Nat
  charW : Nat
  charN : Nat
  typeW : Nat
  typeN : Nat
  dictN : Nat
  bias : Bool
  epsilon : Bytes
  solverType : Nat
  charMap : List Char
deriving DecidableEq, Repr, Inhabited

structure KState where
  failure : Nat
  gotos : List (Char × Nat)
  outputs : List Nat
  isBranch : Bool
deriving DecidableEq, Repr, Inhabited

structure KDict (τ : Type) where
  nDicts : Nat
  states : List KState
  entries : List τ
deriving DecidableEq, Repr, Inhabited

structure KLookup where
  charDict : Option (KDict (List Int))
  typeDict : Option (KDict (List Int))
  selfDict : Option (KDict (List Int))
  dictVec : List Int
  biases : List Int
  tagDictVec : List Int
  tagUnkVec : List Int
deriving DecidableEq, Repr, Inhabited

structure KLinear where
  solverType : Nat
  /-- the `i32` labels, as their unsigned 4-byte values (never interpreted) -/
  labels : List Nat
  bias : Bool
  multiplier : Bytes
  featureLookup : Option KLookup
deriving DecidableEq, Repr, Inhabited

structure KTagEntry where
  word : List Char
  /-- `_tags` and `_tags_in_dicts`, zipped -/
  tags : List (List (List Char × Nat))
  inDict : Nat
  tagModels : List (Option KLinear)
deriving DecidableEq, Repr, Inhabited

structure KProbEntry where
  word : List Char
  /-- `_tags` and `_probs`, zipped -/
  tags : List (List (List Char × Bytes))
deriving DecidableEq, Repr, Inhabited

structure KyteaModel where
  config : KConfig
  wordseg : Option KLinear
  /-- `_global_tags` and `_global_models`, zipped -/
  globals : List (List (List Char) × Option KLinear)
  dict : Option (KDict KTagEntry)
  subwordDict : Option (KDict KProbEntry)
deriving DecidableEq, Repr, Inhabited

/-! ## `KyteaConfig::read` -/

/-- `read_line` (fails with an I/O error of kind `InvalidData` when the line is not UTF-8) -/
def readLine : Rd (List Char) :=
  Rd.bind (readUntil 10) fun line =>
    match utf8Decode? line with
    | some s => Rd.pure s
    | none => Rd.fail .io

/-- `read_until(0, …)` then `String::from_utf8(…)?.chars().collect()` (the delimiter is part of the string) -/
def readCharMap : Rd (List Char) :=
  Rd.bind (readUntil 0) fun raw =>
    match utf8Decode? raw with
    | some s => Rd.pure s
    | none => Rd.fail .utf8

def readConfig : Rd KConfig :=
  Rd.bind readLine fun modelTag =>
  Rd.bind readBool fun doWs =>
  Rd.bind readBool fun doTags =>
  Rd.bind readU32 fun nTags =>
  Rd.bind readU8 fun charW =>
  Rd.bind readU8 fun charN =>
  Rd.bind readU8 fun typeW =>
  Rd.bind readU8 fun typeN =>
  Rd.bind readU8 fun dictN =>
  Rd.bind readBool fun bias =>
  Rd.bind readF64 fun epsilon =>
  Rd.bind readU8 fun solverType =>
  Rd.bind readCharMap fun charMap =>
  Rd.pure { modelTag, doWs, doTags, nTags, charW, charN, typeW, typeN, dictN, bias, epsilon, solverType, charMap }

/-! ## `Readable` -/

/-- `config.char_map[cidx - 1]` -/
def lookupChar (charMap : List Char) (cidx : Nat) : Rd Char :=
  if cidx = 0 then Rd.panic "cidx - 1"
  else
    match charMap[cidx - 1]? with
    | some c => Rd.pure c
    | none => Rd.panic "char_map[cidx - 1]"

/-- `impl Readable for char` -/
def readChar (charMap : List Char) : Rd Char := Rd.bind readU16 (lookupChar charMap)

/-- `impl Readable for Vec<T>` -/
def readVec {α : Type} (d : Rd α) : Rd (List α) := Rd.bind readU32 fun n => Rd.rep d n

/-- `impl Readable for String` (same layout as `Vec<char>`) -/
def readString (charMap : List Char) : Rd (List Char) := readVec (readChar charMap)

/-! ## `Dictionary::read` -/

/-- the order of `(char, u32)` tuples -/
def gotoLe (a b : Char × Nat) : Bool :=
  a.1.toNat < b.1.toNat || (a.1.toNat == b.1.toNat && a.2 ≤ b.2)

def insertGoto (x : Char × Nat) : List (Char × Nat) → List (Char × Nat)
  | [] => [x]
  | y :: r => if gotoLe x y then x :: y :: r else y :: insertGoto x r

/-- `gotos.sort_unstable()` (a total order: the result does not depend on the algorithm) -/
def sortGotos : List (Char × Nat) → List (Char × Nat)
  | [] => []
  | x :: r => insertGoto x (sortGotos r)

def readGoto (charMap : List Char) : Rd (Char × Nat) :=
  Rd.bind (readChar charMap) fun k => Rd.bind readU32 fun v => Rd.pure (k, v)

def readState (charMap : List Char) : Rd KState :=
  Rd.bind readU32 fun failure =>
  Rd.bind (readVec (readGoto charMap)) fun gotos =>
  Rd.bind (readVec readU32) fun outputs =>
  Rd.bind readBool fun isBranch =>
  Rd.pure { failure, gotos := sortGotos gotos, outputs, isBranch }

def readDictBody {τ : Type} (charMap : List Char) (readEntry : Rd τ) (nDicts nStates : Nat) : Rd (Option (KDict τ)) :=
  if nStates = 0 then Rd.pure none
  else
    Rd.bind (Rd.rep (readState charMap) nStates) fun states =>
    Rd.bind (readVec readEntry) fun entries =>
    Rd.pure (some { nDicts, states, entries })

def readDict {τ : Type} (charMap : List Char) (readEntry : Rd τ) : Rd (Option (KDict τ)) :=
  Rd.bind readU8 fun nDicts =>
  Rd.bind readU32 fun nStates =>
  readDictBody charMap readEntry nDicts nStates

/-! ## `FeatureLookup::read`, `Option<LinearModel>::read` -/

def readLookupBody (charMap : List Char) : Rd (Option KLookup) :=
  Rd.bind (readDict charMap (readVec readI16)) fun charDict =>
  Rd.bind (readDict charMap (readVec readI16)) fun typeDict =>
  Rd.bind (readDict charMap (readVec readI16)) fun selfDict =>
  Rd.bind (readVec readI16) fun dictVec =>
  Rd.bind (readVec readI16) fun biases =>
  Rd.bind (readVec readI16) fun tagDictVec =>
  Rd.bind (readVec readI16) fun tagUnkVec =>
  Rd.pure (some { charDict, typeDict, selfDict, dictVec, biases, tagDictVec, tagUnkVec })

def readLookup (charMap : List Char) : Rd (Option KLookup) :=
  Rd.bind readU8 fun active => if active = 0 then Rd.pure none else readLookupBody charMap

def readLinearBody (charMap : List Char) (nClasses : Nat) : Rd (Option KLinear) :=
  if nClasses = 0 then Rd.pure none
  else
    Rd.bind readU8 fun solverType =>
    Rd.bind (Rd.rep readU32 nClasses) fun labels =>
    Rd.bind readBool fun bias =>
    Rd.bind readF64 fun multiplier =>
    Rd.bind (readLookup charMap) fun featureLookup =>
    Rd.pure (some { solverType, labels, bias, multiplier, featureLookup })

def readLinear (charMap : List Char) : Rd (Option KLinear) :=
  Rd.bind readU32 (readLinearBody charMap)

/-! ## `ModelTagEntry::read`, `ProbTagEntry::read` -/

def readTagEntry (charMap : List Char) (nTags : Nat) : Rd KTagEntry :=
  Rd.bind (readString charMap) fun word =>
  Rd.bind (Rd.rep (readVec (Rd.bind (readString charMap) fun t => Rd.bind readU8 fun td => Rd.pure (t, td))) nTags) fun tags =>
  Rd.bind readU8 fun inDict =>
  Rd.bind (Rd.rep (readLinear charMap) nTags) fun tagModels =>
  Rd.pure { word, tags, inDict, tagModels }

def readProbEntry (charMap : List Char) (nTags : Nat) : Rd KProbEntry :=
  Rd.bind (readString charMap) fun word =>
  Rd.bind (Rd.rep (readVec (Rd.bind (readString charMap) fun t => Rd.bind readF64 fun p => Rd.pure (t, p))) nTags) fun tags =>
  Rd.pure { word, tags }

/-! ## `KyteaModel::read` -/

def readGlobal (charMap : List Char) : Rd (List (List Char) × Option KLinear) :=
  Rd.bind (readVec (readString charMap)) fun t => Rd.bind (readLinear charMap) fun m => Rd.pure (t, m)

def readRest (config : KConfig) : Rd KyteaModel :=
  Rd.bind (readLinear config.charMap) fun wordseg =>
  Rd.bind (Rd.rep (readGlobal config.charMap) config.nTags) fun globals =>
  Rd.bind (readDict config.charMap (readTagEntry config.charMap config.nTags)) fun dict =>
  Rd.bind (readDict config.charMap (readProbEntry config.charMap config.nTags)) fun subwordDict =>
  Rd.pure { config, wordseg, globals, dict, subwordDict }

/-- `KyteaModel::read` on a byte slice: the record and the unread rest -/
def readKytea : Rd KyteaModel := Rd.bind readConfig readRest

/-! ## `Dictionary::dump_items` -/

/-- the worklist walk; the head of `stack` is the top of the Rust stack (the children are pushed in reverse) -/
def dumpItems {τ : Type} (states : List KState) (entries : List τ) :
    Nat → List (Nat × List Char) → List (List Char × τ) → Res (List (List Char × τ))
  | _, [], acc => .ok acc
  | 0, _ :: _, _ => .err .fuel
  | fuel + 1, (idx, word) :: rest, acc =>
    match states[idx]? with
    | none => .panic "states[idx]"
    | some st =>
      let children := st.gotos.map fun g => (g.2, word ++ [g.1])
      if st.isBranch then
        match st.outputs with
        | [] => .panic "outputs[0]"
        | o :: _ =>
          match entries[o]? with
          | none => .panic "entries[outputs[0]]"
          | some e => dumpItems states entries fuel (children ++ rest) (acc ++ [(word, e)])
      else dumpItems states entries fuel (children ++ rest) acc

def KDict.dump {τ : Type} (d : KDict τ) (fuel : Nat) : Res (List (List Char × τ)) :=
  dumpItems d.states d.entries fuel [(0, [])] []

/-! ## `impl TryFrom<KyteaModel> for Model` -/

def mapRes {α β : Type} (f : α → Res β) : List α → Res (List β)
  | [] => .ok []
  | x :: xs => (f x).bind fun y => (mapRes f xs).bind fun ys => .ok (y :: ys)

def filterMapRes {α β : Type} (f : α → Res (Option β)) : List α → Res (List β)
  | [] => .ok []
  | x :: xs => (f x).bind fun y => (filterMapRes f xs).bind fun ys =>
      .ok (match y with | some y => y :: ys | none => ys)

/-- `v[..w as usize * 2 - len + 1]` -/
def ngramWeights (w len : Nat) (v : List Int) : Res (List Int) :=
  if 2 * w < len then .panic "w * 2 - len"
  else if v.length < 2 * w - len + 1 then .panic "v[..weight_size]"
  else .ok (v.take (2 * w - len + 1))

def charNgramOf (charW : Nat) (item : List Char × List Int) : Res (NgramData Char) :=
  (ngramWeights charW item.1.length item.2).bind fun ws => .ok ⟨item.1, ws⟩

/-- `CharacterType as u8` of a type letter -/
def typeCode? (b : UInt8) : Option Nat :=
  if b = 68 then some 1        -- D
  else if b = 82 then some 2   -- R
  else if b = 72 then some 3   -- H
  else if b = 84 then some 4   -- T
  else if b = 75 then some 5   -- K
  else if b = 79 then some 6   -- O
  else none

/-- the loop over the bytes of a type n-gram: `none` is `continue 'a` -/
def typeCodes : Bytes → Res (Option (List Nat))
  | [] => .ok (some [])
  | b :: r =>
    match typeCode? b with
    | some c => (typeCodes r).bind fun x => .ok (x.map (c :: ·))
    | none => if b = 4 then .ok none else .err .invalidModel

def typeNgramOf (typeW : Nat) (item : List Char × List Int) : Res (Option (NgramData Nat)) :=
  if 2 * typeW < item.1.length then .panic "w * 2 - len"
  else
    (typeCodes (utf8Encode item.1)).bind fun codes =>
      match codes with
      | none => .ok none
      | some cs => (ngramWeights typeW item.1.length item.2).bind fun ws => .ok (some ⟨cs, ws⟩)

/-- the loop `for j in 0..n_dicts` accumulating `DictWeight` -/
def dictSum (dictN idx : Nat) (dictVec : List Int) (inDict : Nat) : List Nat → Int × Int × Int → Res (Int × Int × Int)
  | [], acc => .ok acc
  | j :: js, acc =>
    if 8 ≤ j then .panic "in_dict >> j"
    else if (inDict >>> j) % 2 = 1 then
      let offset := 3 * dictN * j + 3 * idx
      match dictVec[offset]?, dictVec[offset + 1]?, dictVec[offset + 2]? with
      | some l, some i, some r => dictSum dictN idx dictVec inDict js (acc.1 + l, acc.2.1 + i, acc.2.2 + r)
      | _, _, _ => .panic "dict_vec[offset]"
    else dictSum dictN idx dictVec inDict js acc

/-- `vec![inside; len + 1]` with the first and the last entry overwritten -/
def wordWeights (len : Nat) (w : Int × Int × Int) : List Int :=
  ((List.replicate (len + 1) w.2.1).set 0 w.1).set len w.2.2

def dictWordOf (dictN nDicts : Nat) (dictVec : List Int) (item : List Char × KTagEntry) : Res DictWord :=
  if min item.1.length dictN = 0 then .panic "min(len, dict_n) - 1"
  else
    (dictSum dictN (min item.1.length dictN - 1) dictVec item.2.inDict (List.range nDicts) (0, 0, 0)).bind fun w =>
      .ok ⟨item.1, wordWeights item.1.length w, []⟩

def getOr {α : Type} (o : Option α) (e : Res α) : Res α :=
  match o with
  | some a => .ok a
  | none => e

def convertDict (fuel : Nat) (dictN : Nat) (dictVec : List Int) : Option (KDict KTagEntry) → Res (List DictWord)
  | none => .ok []
  | some kd => (kd.dump fuel).bind fun items => mapRes (dictWordOf dictN kd.nDicts dictVec) items

/-- `Model::try_from(KyteaModel)`; `fuel` bounds each of the three trie walks -/
def convert (fuel : Nat) (m : KyteaModel) : Res WModel :=
  (getOr m.wordseg (.err .invalidModel)).bind fun ws =>
  (getOr ws.featureLookup (.err .invalidModel)).bind fun fl =>
  (getOr fl.biases.head? (.panic "biases[0]")).bind fun bias =>
  (getOr fl.charDict (.err .invalidModel)).bind fun cd =>
  (getOr fl.typeDict (.err .invalidModel)).bind fun td =>
  (cd.dump fuel).bind fun citems =>
  (mapRes (charNgramOf m.config.charW) citems).bind fun charNgrams =>
  (td.dump fuel).bind fun titems =>
  (filterMapRes (typeNgramOf m.config.typeW) titems).bind fun typeNgrams =>
  (convertDict fuel m.config.dictN fl.dictVec m.dict).bind fun dict =>
  .ok { charNgrams, typeNgrams, dict, bias, charW := m.config.charW, typeW := m.config.typeW, tagModels := [] }

/-- read and convert a file; every state occupies at least 13 bytes, so `bs.length` pops suffice for every trie -/
def convertBytes (fuel : Nat) (bs : Bytes) : Res WModel :=
  match readKytea bs with
  | .ok (km, _) => convert fuel km
  | .err e => .err e
  | .panic s => .panic s
  | .ub s => .ub s

/-! ## the abstract description and the harness's encoder -/

structure AbsKytea where
  charW : Nat
  charN : Nat
  typeW : Nat
  typeN : Nat
  dictN : Nat
  nTags : Nat
  nDicts : Nat
  charMap : List Char
  bias : Int
  charNgrams : List (List Char × List Int)
  /-- keys over `D R H T K O` and U+0004 (written `4` in the text form) -/
  typeNgrams : List (List Char × List Int)
  dictVec : List Int
  words : List (List Char × Nat)
deriving DecidableEq, Repr, Inhabited

def encU8 (n : Nat) : Bytes := leBytes 1 n
def encU16 (n : Nat) : Bytes := leBytes 2 n
def encU32 (n : Nat) : Bytes := leBytes 4 n
def encI16 (x : Int) : Bytes := leBytes 2 (x % 65536).toNat

/-- 1-based index into the character map -/
def cidx (charMap : List Char) (c : Char) : Nat := charMap.idxOf c + 1

def encChar (charMap : List Char) (c : Char) : Bytes := encU16 (cidx charMap c)

def encVecOf {α : Type} (e : α → Bytes) (xs : List α) : Bytes := encU32 xs.length ++ xs.flatMap e

def encStr (charMap : List Char) (s : List Char) : Bytes := encVecOf (encChar charMap) s

def encI16s (v : List Int) : Bytes := encVecOf encI16 v

/-! ### the trie

The harness inserts the keys one after the other and appends a node whenever a prefix is seen for the first time:
the nodes, in creation order, are the distinct non-empty prefixes of the keys in order of first occurrence,
after the root. -/

def prefixesOf (w : List Char) : List (List Char) := (List.range w.length).map fun n => w.take (n + 1)

def addNew (acc : List (List Char)) (p : List Char) : List (List Char) := if p ∈ acc then acc else acc ++ [p]

/-- the nodes (as the strings that lead to them), in creation order; the root is node 0 -/
def trieNodes (keys : List (List Char)) : List (List Char) := (keys.flatMap prefixesOf).foldl addNew [[]]

/-- the index of the last key equal to `p` (`nodes[cur].entry = Some(ei)` overwrites) -/
def lastIdxAux (p : List Char) : List (List Char) → Nat → Option Nat → Option Nat
  | [], _, r => r
  | k :: ks, i, r => lastIdxAux p ks (i + 1) (if k = p then some i else r)

def lastIdx (p : List Char) (keys : List (List Char)) : Option Nat := lastIdxAux p keys 0 none

/-- the children of node `p`: the nodes `p ++ [c]`, with their indices -/
def childrenOf (nodes : List (List Char)) (p : List Char) : List (Char × Nat) :=
  nodes.filterMap fun q =>
    match q.getLast? with
    | some c => if q = p ++ [c] then some (c, nodes.idxOf q) else none
    | none => none

/-- the state of node `p` as the reader sees it (gotos ascending) -/
def trieState (keys nodes : List (List Char)) (p : List Char) : KState :=
  { failure := 0
    gotos := sortGotos (childrenOf nodes p)
    outputs := match lastIdx p keys with | some e => [e] | none => []
    isBranch := (lastIdx p keys).isSome }

def trieStates (keys : List (List Char)) : List KState :=
  let nodes := trieNodes keys
  nodes.map (trieState keys nodes)

def encGoto (charMap : List Char) (g : Char × Nat) : Bytes := encChar charMap g.1 ++ encU32 g.2

/-- gotos are written in DESCENDING order -/
def encState (charMap : List Char) (st : KState) : Bytes :=
  encU32 st.failure ++ encVecOf (encGoto charMap) st.gotos.reverse ++ encVecOf encU32 st.outputs
    ++ encU8 (if st.isBranch then 1 else 0)

/-- `put_dictionary` -/
def encDict {τ : Type} (charMap : List Char) (nDicts : Nat) (keys : List (List Char)) (encEntry : τ → Bytes)
    (entries : List τ) : Bytes :=
  if keys.isEmpty then encU8 nDicts ++ encU32 0
  else
    let states := trieStates keys
    encU8 nDicts ++ encU32 states.length ++ states.flatMap (encState charMap) ++ encVecOf encEntry entries

/-- `b"KyTea 0.4.7 B UTF-8\n"` -/
def tagLine : Bytes :=
  [0x4b, 0x79, 0x54, 0x65, 0x61, 0x20, 0x30, 0x2e, 0x34, 0x2e, 0x37, 0x20, 0x42, 0x20, 0x55, 0x54, 0x46, 0x2d, 0x38, 0x0a]

/-- the tag line as the reader decodes it -/
def tagChars : List Char :=
  ['K', 'y', 'T', 'e', 'a', ' ', '0', '.', '4', '.', '7', ' ', 'B', ' ', 'U', 'T', 'F', '-', '8', '\n']

/-- `0.0001f64.to_le_bytes()` -/
def epsilonBytes : Bytes := [0x2d, 0x43, 0x1c, 0xeb, 0xe2, 0x36, 0x1a, 0x3f]
/-- `1.0f64.to_le_bytes()` -/
def oneBytes : Bytes := [0, 0, 0, 0, 0, 0, 0xf0, 0x3f]

def encHeader (k : AbsKytea) : Bytes :=
  tagLine ++ encU8 1 ++ encU8 0 ++ encU32 k.nTags ++ encU8 k.charW ++ encU8 k.charN ++ encU8 k.typeW ++ encU8 k.typeN
    ++ encU8 k.dictN ++ encU8 1 ++ epsilonBytes ++ encU8 1 ++ (utf8Encode k.charMap ++ [0])

def encLookup (k : AbsKytea) : Bytes :=
  encU8 1
    ++ encDict k.charMap 0 (k.charNgrams.map (·.1)) encI16s (k.charNgrams.map (·.2))
    ++ encDict k.charMap 0 (k.typeNgrams.map (·.1)) encI16s (k.typeNgrams.map (·.2))
    ++ encDict k.charMap 0 [] encI16s []
    ++ encI16s k.dictVec ++ encI16s [k.bias] ++ encI16s [] ++ encI16s []

def encWordseg (k : AbsKytea) : Bytes :=
  encU32 2 ++ encU8 1 ++ (encU32 1 ++ encU32 0xffffffff) ++ encU8 1 ++ oneBytes ++ encLookup k

/-- one tag (the word itself) with an in-dictionary flag for the first slot, none otherwise -/
def encTagSlots (k : AbsKytea) (w : List Char) : Bytes :=
  (List.range k.nTags).flatMap fun t =>
    if t = 0 then encU32 1 ++ (encStr k.charMap w ++ encU8 1) else encU32 0

def encTagEntry (k : AbsKytea) (e : List Char × Nat) : Bytes :=
  encStr k.charMap e.1 ++ encTagSlots k e.1 ++ encU8 e.2 ++ (List.range k.nTags).flatMap (fun _ => encU32 0)

def encGlobals (k : AbsKytea) : Bytes := (List.range k.nTags).flatMap fun _ => encU32 0 ++ encU32 0

/-- `AbsKytea::encode` -/
def encodeKytea (k : AbsKytea) : Bytes :=
  encHeader k ++ encWordseg k ++ encGlobals k
    ++ encDict k.charMap k.nDicts (k.words.map (·.1)) (encTagEntry k) k.words
    ++ encDict (τ := Unit) k.charMap 0 [] (fun _ => []) []

/-! ### the record structure the file stands for -/

def reprDict {τ : Type} (nDicts : Nat) (keys : List (List Char)) (entries : List τ) : Option (KDict τ) :=
  if keys.isEmpty then none else some { nDicts, states := trieStates keys, entries }

def reprConfig (k : AbsKytea) : KConfig :=
  { modelTag := tagChars, doWs := true, doTags := false, nTags := k.nTags, charW := k.charW,
    charN := k.charN, typeW := k.typeW, typeN := k.typeN, dictN := k.dictN, bias := true, epsilon := epsilonBytes,
    solverType := 1, charMap := k.charMap ++ [Char.ofNat 0] }

def reprLookup (k : AbsKytea) : KLookup :=
  { charDict := reprDict 0 (k.charNgrams.map (·.1)) (k.charNgrams.map (·.2))
    typeDict := reprDict 0 (k.typeNgrams.map (·.1)) (k.typeNgrams.map (·.2))
    selfDict := none
    dictVec := k.dictVec, biases := [k.bias], tagDictVec := [], tagUnkVec := [] }

def reprWordseg (k : AbsKytea) : KLinear :=
  { solverType := 1, labels := [1, 0xffffffff], bias := true, multiplier := oneBytes, featureLookup := some (reprLookup k) }

def reprTagEntry (k : AbsKytea) (e : List Char × Nat) : KTagEntry :=
  { word := e.1
    tags := (List.range k.nTags).map fun t => if t = 0 then [(e.1, 1)] else []
    inDict := e.2
    tagModels := (List.range k.nTags).map fun _ => none }

/-- the `KyteaModel` value `readKytea` must deliver for `encodeKytea k` -/
def reprKytea (k : AbsKytea) : KyteaModel :=
  { config := reprConfig k
    wordseg := some (reprWordseg k)
    globals := (List.range k.nTags).map fun _ => ([], none)
    dict := reprDict k.nDicts (k.words.map (·.1)) (k.words.map (reprTagEntry k))
    subwordDict := none }

/-! ### `AbsKytea::expected` -/

def ltChar (a b : Char) : Bool := a.toNat < b.toNat

/-- `chars().cmp(…)` is `Less` -/
def lexLt : List Char → List Char → Bool
  | [], [] => false
  | [], _ :: _ => true
  | _ :: _, [] => false
  | a :: as, b :: bs => if ltChar a b then true else if ltChar b a then false else lexLt as bs

/-- stable insertion sort by key (`sort_by` is stable) -/
def insertByKey {α : Type} (x : List Char × α) : List (List Char × α) → List (List Char × α)
  | [] => [x]
  | y :: r => if lexLt x.1 y.1 then x :: y :: r else y :: insertByKey x r

def sortByKey {α : Type} : List (List Char × α) → List (List Char × α)
  | [] => []
  | x :: r => insertByKey x (sortByKey r)

def mapOpt {α β : Type} (f : α → Option β) : List α → Option (List β)
  | [] => some []
  | x :: xs => (f x).bind fun y => (mapOpt f xs).bind fun ys => some (y :: ys)

def filterMapOpt {α β : Type} (f : α → Option (Option β)) : List α → Option (List β)
  | [] => some []
  | x :: xs => (f x).bind fun y => (filterMapOpt f xs).bind fun ys =>
      some (match y with | some y => y :: ys | none => ys)

def expWeights (w len : Nat) (v : List Int) : Option (List Int) :=
  if 2 * w + 1 < len then none
  else if v.length < 2 * w + 1 - len then none
  else some (v.take (2 * w + 1 - len))

def expCharNgram (k : AbsKytea) (e : List Char × List Int) : Option (NgramData Char) :=
  (expWeights k.charW e.1.length e.2).map fun ws => ⟨e.1, ws⟩

def letterCode (c : Char) : Nat :=
  if c = 'D' then 1 else if c = 'R' then 2 else if c = 'H' then 3 else if c = 'T' then 4 else if c = 'K' then 5 else 6

def expTypeNgram (k : AbsKytea) (e : List Char × List Int) : Option (Option (NgramData Nat)) :=
  if Char.ofNat 4 ∈ e.1 then some none
  else (expWeights k.typeW e.1.length e.2).map fun ws => some ⟨e.1.map letterCode, ws⟩

def expDictSum (dictN idx : Nat) (dictVec : List Int) (mask : Nat) : List Nat → Int × Int × Int → Option (Int × Int × Int)
  | [], acc => some acc
  | j :: js, acc =>
    if (mask >>> j) % 2 = 1 then
      let off := 3 * dictN * j + 3 * idx
      match dictVec[off]?, dictVec[off + 1]?, dictVec[off + 2]? with
      | some l, some i, some r => expDictSum dictN idx dictVec mask js (acc.1 + l, acc.2.1 + i, acc.2.2 + r)
      | _, _, _ => none
    else expDictSum dictN idx dictVec mask js acc

def expWord (k : AbsKytea) (e : List Char × Nat) : Option DictWord :=
  if min e.1.length k.dictN = 0 then none
  else
    (expDictSum k.dictN (min e.1.length k.dictN - 1) k.dictVec e.2 (List.range k.nDicts) (0, 0, 0)).map fun w =>
      ⟨e.1, wordWeights e.1.length w, []⟩

/-- the sums of the `dict_vec` entries (left, inside, right) for length bucket `idx`, over the dictionaries `j < n_dicts`
whose bit is set in `mask` -/
def dictTotals (k : AbsKytea) (mask idx : Nat) : Int × Int × Int :=
  let js := (List.range k.nDicts).filter fun j => (mask >>> j) % 2 = 1
  ((js.map fun j => k.dictVec.getD (3 * k.dictN * j + 3 * idx) 0).sum,
   (js.map fun j => k.dictVec.getD (3 * k.dictN * j + 3 * idx + 1) 0).sum,
   (js.map fun j => k.dictVec.getD (3 * k.dictN * j + 3 * idx + 2) 0).sum)

/-- the model the file encodes, as the property states it (`none`: the description is not a well-formed model) -/
def expectedModel (k : AbsKytea) : Option WModel :=
  (mapOpt (expCharNgram k) (sortByKey k.charNgrams)).bind fun charNgrams =>
  (filterMapOpt (expTypeNgram k) (sortByKey k.typeNgrams)).bind fun typeNgrams =>
  (mapOpt (expWord k) (sortByKey k.words)).bind fun dict =>
  some { charNgrams, typeNgrams, dict, bias := k.bias, charW := k.charW, typeW := k.typeW, tagModels := [] }

/-! ### well-formed descriptions -/

def I16 (x : Int) : Prop := -32768 ≤ x ∧ x < 32768

instance (x : Int) : Decidable (I16 x) := by unfold I16; infer_instance

/-- an n-gram of a window of `w`: characters from the map, length `1 … 2w`, at least `2w − ℓ + 1` weights -/
structure WFNgram (charMap : List Char) (w : Nat) (e : List Char × List Int) : Prop where
  chars : ∀ c ∈ e.1, c ∈ charMap
  len : 1 ≤ e.1.length ∧ e.1.length ≤ 2 * w
  weights : 2 * w - e.1.length + 1 ≤ e.2.length
  i16 : ∀ x ∈ e.2, I16 x

/-- the letters of a type n-gram: `D R H T K O` and the stray U+0004 of some distributed models -/
def typeLetters : List Char := ['D', 'R', 'H', 'T', 'K', 'O', Char.ofNat 4]

/-- the descriptions that stand for a KyTea word-segmentation model (the domain of property C17) -/
structure WFKytea (k : AbsKytea) : Prop where
  charW : k.charW < 256
  charN : k.charN < 256
  typeW : k.typeW < 256
  typeN : k.typeN < 256
  dictN : 1 ≤ k.dictN ∧ k.dictN < 256
  nTags : k.nTags < 2 ^ 32
  nDicts : k.nDicts ≤ 8
  /-- the map is NUL-terminated in the file -/
  mapNul : Char.ofNat 0 ∉ k.charMap
  /-- character indices are `u16` -/
  mapLen : k.charMap.length < 65535
  bias : I16 k.bias
  charNgrams : ∀ e ∈ k.charNgrams, WFNgram k.charMap k.charW e
  charKeys : (k.charNgrams.map (·.1)).Nodup
  /-- a dictionary without states is read as absent, and the conversion requires both n-gram dictionaries -/
  charSome : k.charNgrams ≠ []
  typeNgrams : ∀ e ∈ k.typeNgrams, WFNgram k.charMap k.typeW e ∧ ∀ c ∈ e.1, c ∈ typeLetters
  typeKeys : (k.typeNgrams.map (·.1)).Nodup
  typeSome : k.typeNgrams ≠ []
  dictVecLen : k.dictVec.length = 3 * k.dictN * k.nDicts
  dictVec16 : ∀ x ∈ k.dictVec, I16 x
  words : ∀ e ∈ k.words, (∀ c ∈ e.1, c ∈ k.charMap) ∧ 1 ≤ e.1.length ∧ e.2 < 2 ^ k.nDicts
  wordKeys : (k.words.map (·.1)).Nodup
  /-- every count in the file is a `u32` -/
  small : (encodeKytea k).length < 2 ^ 32

/-- the number of pops the three trie walks of a conversion need -/
def trieFuel (k : AbsKytea) : Nat :=
  max (trieStates (k.charNgrams.map (·.1))).length
    (max (trieStates (k.typeNgrams.map (·.1))).length (trieStates (k.words.map (·.1))).length)

end V.Ky
