import VModel.Quantize
/-!
# VModel.F64Arith — binary64 conversion from integers, `*`, `+`, and the three metrics of the `evaluate` tool

```
let precision = f64::from(n_tp) / f64::from(n_tp + n_fp);      // word metric: n_cor / n_sys
let recall    = f64::from(n_tp) / f64::from(n_tp + n_fn);      //              n_cor / n_ref
let f1 = 2. * precision * recall / (precision + recall);
```

Same representation as `VModel/Quantize.lean`: a finite double is a sign and a natural number of *units* `2^-1074`.
The product of `a` and `b` units is the rational `a·b / 2^1074` units, the sum of `a` and `b` units is `a + b` units, the
difference `|a − b|` units: exact rationals, rounded once by `roundUnits` (to nearest, ties to even, gradual underflow),
overflow to ±∞.  Core Lean only, no `Float`, nothing `partial`.
-/
namespace V

open F64

/-- finish an operation: the correctly rounded magnitude `r` (exponent unbounded) becomes ±∞ when it left the finite range -/
def F64.pack (s : Bool) (r : Nat) : F64 := if r < top then .fin s r else .inf s

/-- integer → binary64, correctly rounded (`f64::from(i32)` / `u32` / `as f64` on non-negative integers); exact below `2^53`,
in particular for every `i32` count -/
def f64OfNat (n : Nat) : F64 := F64.pack false (roundUnits (n * unit) 1)

/-- IEEE-754 multiplication, correctly rounded (`0·∞ = NaN`, the sign is the exclusive or of the signs, also for zeros) -/
def f64Mul : F64 → F64 → F64
  | .nan, _ => .nan
  | .inf _, .nan => .nan
  | .inf s, .inf t => .inf (s != t)
  | .inf s, .fin t b => if b = 0 then .nan else .inf (s != t)
  | .fin _ _, .nan => .nan
  | .fin s a, .inf t => if a = 0 then .nan else .inf (s != t)
  | .fin s a, .fin t b => F64.pack (s != t) (roundUnits (a * b) unit)

/-- IEEE-754 addition, correctly rounded, rounding mode to-nearest (`∞ + (−∞) = NaN`; an exact zero sum of opposite signs is
`+0`, so `x + (−x) = +0` and `(+0) + (−0) = +0`, while `(−0) + (−0) = −0`) -/
def f64Add : F64 → F64 → F64
  | .nan, _ => .nan
  | .inf _, .nan => .nan
  | .inf s, .inf t => if s = t then .inf s else .nan
  | .inf s, .fin _ _ => .inf s
  | .fin _ _, .nan => .nan
  | .fin _ _, .inf t => .inf t
  | .fin s a, .fin t b =>
    if s = t then F64.pack s (roundUnits (a + b) 1)
    else if a = b then .fin false 0
    else if b < a then F64.pack s (roundUnits (a - b) 1)
    else F64.pack t (roundUnits (b - a) 1)

/-- unary minus -/
def f64Neg : F64 → F64
  | .nan => .nan
  | .inf s => .inf (!s)
  | .fin s a => .fin (!s) a

/-- `x - y = x + (−y)` (so `∞ − ∞ = NaN`, `x − x = +0`) -/
def f64Sub (x y : F64) : F64 := f64Add x (f64Neg y)

/-- IEEE `==` (false when an operand is NaN; `+0 == −0`) -/
def f64Eq (x y : F64) : Bool := f64Le x y && f64Le y x

/-- IEEE `<` -/
def f64Lt (x y : F64) : Bool := f64Le x y && !f64Le y x

/-- the literal `2.` -/
def f64Two : F64 := .fin false (2 * unit)

/-- the tail of `evaluate`'s `main`: `(precision, recall, f1)` from the numerator (`n_tp` / `n_cor`) and the two denominators
(`n_tp + n_fp` / `n_sys`, `n_tp + n_fn` / `n_ref`); `2. * precision * recall` is `(2. * precision) * recall` -/
def evalMetrics (num pDen rDen : Nat) : F64 × F64 × F64 :=
  let p := f64Div (f64OfNat num) (f64OfNat pDen)
  let r := f64Div (f64OfNat num) (f64OfNat rDen)
  let f1 := f64Div (f64Mul (f64Mul f64Two p) r) (f64Add p r)
  (p, r, f1)

/-- `--metric char` -/
def evalMetricsChar (c : Nat × Nat × Nat × Nat) : F64 × F64 × F64 :=
  let (tp, _, fp, fn) := c
  evalMetrics tp (tp + fp) (tp + fn)

/-- `--metric word` -/
def evalMetricsWord (c : Nat × Nat × Nat) : F64 × F64 × F64 :=
  let (cor, sys, ref) := c
  evalMetrics cor sys ref

/-! ## line-protocol helper -/

/-- the 64-bit pattern as 16 lower-case hex digits -/
def hex64 (b : Nat) : String :=
  String.ofList ((List.range 16).map fun i => hexDigit (b / 16 ^ (15 - i) % 16))

/-- `P=<bits>,R=<bits>,F=<bits>` -/
def metricsText (m : F64 × F64 × F64) : String :=
  "P=" ++ hex64 m.1.toBits ++ ",R=" ++ hex64 m.2.1.toBits ++ ",F=" ++ hex64 m.2.2.toBits

end V
