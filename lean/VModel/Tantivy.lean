import VModel.Scorer
import VModel.Filters
import VModel.Generated.Fullwidth
/-!
# VModel.Tantivy — `KyteaFullwidthFilter` (generated) and `VaporettoTokenizer::token_stream` / `advance`
-/
namespace V

/-- one configured post filter; the grapheme filter carries the cluster lengths of the (normalised) text -/
inductive PostFilter
  | ws (t : Nat)
  | graphemes (clusters : List Nat)
deriving Repr

/-- `build_post_filters`: `D R H T K O` ↦ the character-type filters, `G` ↦ the grapheme filter, anything else is an error -/
def buildPostFilters (wsconst : List Char) (clusters : List Nat) : Res (List PostFilter) :=
  wsconst.foldr (fun c acc =>
    match acc with
    | .ok l =>
      (match c with
       | 'D' => .ok (.ws 1 :: l) | 'R' => .ok (.ws 2 :: l) | 'H' => .ok (.ws 3 :: l) | 'T' => .ok (.ws 4 :: l)
       | 'K' => .ok (.ws 5 :: l) | 'O' => .ok (.ws 6 :: l) | 'G' => .ok (.graphemes clusters :: l)
       | _ => .err .invalidArgument)
    | e => e) (.ok [])

def applyPostFilters : List PostFilter → Sentence → Res Sentence
  | [], s => .ok s
  | .ws t :: r, s =>
    match filterWsConst t s with
    | .ok s' => applyPostFilters r s'
    | e => e
  | .graphemes ls :: r, s =>
    match filterGraphemes ls s with
    | .ok s' => applyPostFilters r s'
    | e => e

/-- the core pipeline on one text: normalise, `from_raw`, predict, line-break filter, configured filters -/
def pipeline (p : Predictor) (filters : List PostFilter) (text : List Char) : Res Sentence :=
  match Sentence.fromRaw (Gen.fullwidth text) with
  | .ok s =>
    match p.predict 0 s with
    | .ok s1 =>
      match filterLinebreaks s1 with
      | .ok s2 => applyPostFilters filters s2
      | e => e
    | e => e
  | .err e => .err e
  | .panic q => .panic q
  | .ub q => .ub q

/-- `boundary_pos`: byte offset of character `i + 1` for every `bounds[i] = W` (zipped with `text.char_indices().skip(1)`),
then the byte length of the text -/
def boundaryPos (text : List Char) (bounds : List B) : List Nat :=
  let offs := (charToStr text).drop 1          -- byte offsets of characters 1, 2, …, and the total length last
  ((offs.zip bounds).filterMap fun (o, b) => if b = B.W then some o else none) ++ [utf8Len text]

structure StreamToken where
  offsetFrom : Nat
  offsetTo : Nat
  position : Nat
  text : List Char
deriving DecidableEq, Repr

/-- the characters of `text` whose byte offsets lie in `[lo, hi)`; `none` if `lo`/`hi` is not a character boundary
(`&self.text[from..to]` panics there) -/
def sliceBytes (text : List Char) (lo hi : Nat) : Option (List Char) :=
  match strToChar? text lo, strToChar? text hi with
  | some a, some b => if a ≤ b then some ((text.drop a).take (b - a)) else none
  | _, _ => none

/-- repeated `advance()` -/
def advanceAll (text : List Char) : List Nat → Nat → Nat → Res (List StreamToken)
  | [], _, _ => .ok []
  | to :: r, offsetTo, pos =>
    match sliceBytes text offsetTo to with
    | none => .panic "&self.text[offset_from..offset_to]"
    | some t =>
      match advanceAll text r to (pos + 1) with
      | .ok rest => .ok (⟨offsetTo, to, pos, t⟩ :: rest)
      | e => e

/-- `token_stream(text)` followed by `advance()` until it returns false.
(fix F-C16: a text that `Sentence::from_raw` rejects — one containing NUL — is returned as a single token) -/
def tokenStream (p : Predictor) (filters : List PostFilter) (text : List Char) : Res (List StreamToken) :=
  if text.isEmpty then .ok []
  else
    match pipeline p filters text with
    | .ok s => advanceAll text (boundaryPos text s.bounds) 0 0
    | .err _ => advanceAll text [utf8Len text] 0 0
    | .panic q => .panic q
    | .ub q => .ub q

end V
