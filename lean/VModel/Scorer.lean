import VModel.Sentence
import VModel.Weights
import VModel.Merge
/-!
# VModel.Scorer — model of `model.rs` (data), `char_scorer*`, `type_scorer*`, `Predictor::{new, predict, predict_tags}`

External component with a recorded contract: the daachorse automaton.  `find_overlapping_no_suffix_iter`
reports, for every end position, the longest pattern that is a suffix of the text read so far;
`find_overlapping_iter` reports all of them; construction fails on an empty pattern set, an empty pattern
or duplicate patterns.  Byte-wise and character-wise automata coincide on UTF-8 at character level.
-/
namespace V

/-! ## model data (`ModelData`) -/

structure NgramData (α : Type) where
  ngram : List α
  weights : List Int
deriving DecidableEq, Repr, Inhabited

structure DictWord where
  word : List Char
  weights : List Int
  comment : List Char
deriving DecidableEq, Repr, Inhabited

structure TagWeight where
  rel : Nat
  weights : List Int
deriving DecidableEq, Repr, Inhabited

structure TagNgramData (α : Type) where
  ngram : List α
  weights : List TagWeight
deriving DecidableEq, Repr, Inhabited

structure TagModel where
  token : List Char
  tags : List (List (List Char))
  charNgrams : List (TagNgramData Char)
  typeNgrams : List (TagNgramData Nat)
  bias : List Int
deriving DecidableEq, Repr, Inhabited

structure WModel where
  charNgrams : List (NgramData Char)
  typeNgrams : List (NgramData Nat)
  dict : List DictWord
  bias : Int
  charW : Nat
  typeW : Nat
  tagModels : List TagModel
deriving DecidableEq, Repr, Inhabited

/-! ## `PositionalWeightWithTag` -/

structure PWT where
  weight : Option PW
  /-- `HashMap<(token_id, rel_position), Vec<i32>>` -/
  tagInfo : List ((Nat × Nat) × List Int)
deriving DecidableEq, Repr, Inhabited

/-- `entry(k).and_modify(zip-add).or_insert(v.clone())` -/
def tagInfoAdd : List ((Nat × Nat) × List Int) → (Nat × Nat) → List Int → List ((Nat × Nat) × List Int)
  | [], k, v => [(k, v)]
  | (k', w) :: r, k, v => if k' = k then (k', zipAdd w v) :: r else (k', w) :: tagInfoAdd r k v

def PWT.add (a b : PWT) : PWT :=
  { weight := match a.weight, b.weight with
      | some y, some x => some (y.add x)
      | some y, none => some y
      | none, w => w
    tagInfo := b.tagInfo.foldl (fun acc kv => tagInfoAdd acc kv.1 kv.2) a.tagInfo }

def PWT.empty : PWT := { weight := none, tagInfo := [] }

/-! ## the automaton contract -/

variable {α : Type} [DecidableEq α]

/-- index of the longest pattern that is a suffix of `pre` -/
def longestMatchAux (pre : List α) : List (List α) → Nat → Option (Nat × Nat) → Option (Nat × Nat)
  | [], _, best => best
  | p :: r, i, best =>
    let best' := if p.isSuffixOf pre then
        (match best with
         | some (_, l) => if l < p.length then some (i, p.length) else best
         | none => some (i, p.length))
      else best
    longestMatchAux pre r (i + 1) best'

def longestMatch (pats : List (List α)) (pre : List α) : Option Nat :=
  (longestMatchAux pre pats 0 none).map Prod.fst

/-- `find_overlapping_no_suffix_iter`: `(end, pattern id)` for every end position `1..n` that has a match -/
def matchesNoSuffix (pats : List (List α)) (seq : List α) : List (Nat × Nat) :=
  (List.range seq.length).filterMap fun k =>
    (longestMatch pats (seq.take (k + 1))).map fun id => (k + 1, id)

/-- `find_overlapping_iter`: all `(end, pattern id)` -/
def matchesAll (pats : List (List α)) (seq : List α) : List (Nat × Nat) :=
  (List.range seq.length).flatMap fun k =>
    (List.range pats.length).filterMap fun id =>
      if (pats.getD id []).isSuffixOf (seq.take (k + 1)) then some (k + 1, id) else none

/-- construction succeeds iff there is at least one pattern, none is empty and they are distinct -/
def pmaBuildOk (pats : List (List α)) : Bool :=
  !pats.isEmpty && pats.all (fun p => !p.isEmpty) && decide pats.Nodup

/-! ## scorers -/

/-- `CharScorerBoundary` / `TypeScorerBoundary` (patterns with merged weights) and the `…BoundaryTag` variants -/
structure PmaScorer (α : Type) where
  pats : List (List α)
  weights : List (Option PWV)
  /-- `tag_weight[token_id][rel_position]`: pattern id ↦ weight vector; `none` for the non-tag scorer -/
  tagWeight : Option (List (List (List (Nat × WV))))
deriving Repr

inductive TypeScorer
  | pma (s : PmaScorer Nat)
  | cache (ngrams : List (NgramData Nat)) (window : Nat)
deriving Repr

/-- `CharScorerBoundary::new` / `TypeScorerBoundary::new`: merge, convert, build the automaton -/
def buildBoundary (cfg : Cfg) (entries : List (List α × PW)) : Res (PmaScorer α) :=
  let merged := Merge.mergeEntries PW.add ⟨0, []⟩ entries
  let pats := merged.map Prod.fst
  if pmaBuildOk pats then
    .ok { pats := pats, weights := merged.map fun e => some (e.2.toPWV cfg), tagWeight := none }
  else .err .invalidModel

def insertTagWeights (cfg : Cfg) (id : Nat) :
    List ((Nat × Nat) × List Int) → List (List (List (Nat × WV))) → Res (List (List (List (Nat × WV))))
  | [], tw => .ok tw
  | ((tid, rel), w) :: r, tw =>
    match tw[tid]? with
    | none => .panic "tag_weight[token_id]"
    | some row =>
      match row[rel]? with
      | none => .panic "tag_weight[token_id][rel_position]: index out of bounds"
      | some m => insertTagWeights cfg id r (tw.set tid (row.set rel (m ++ [(id, WV.ofList cfg w)])))

def fillTagWeights (cfg : Cfg) : List (List α × PWT) → Nat → List (List (List (Nat × WV))) →
    Res (List (List (List (Nat × WV))))
  | [], _, tw => .ok tw
  | e :: r, id, tw =>
    match insertTagWeights cfg id e.2.tagInfo tw with
    | .ok tw' => fillTagWeights cfg r (id + 1) tw'
    | .err x => .err x
    | .panic p => .panic p
    | .ub p => .ub p

/-- `…BoundaryTag::new` -/
def buildBoundaryTag (cfg : Cfg) (window nTagModels : Nat) (entries : List (List α × PWT)) : Res (PmaScorer α) :=
  let merged := Merge.mergeEntries PWT.add PWT.empty entries
  let pats := merged.map Prod.fst
  -- (fix F-C11b) the table covers the largest relative position in the model, at least `window + 1` rows
  let nRel := entries.foldl (fun acc e => e.2.tagInfo.foldl (fun a kv => max a (kv.1.2 + 1)) acc) (window + 1)
  let table := List.replicate nTagModels (List.replicate nRel ([] : List (Nat × WV)))
  match fillTagWeights cfg merged 0 table with
  | .ok tw =>
    if pmaBuildOk pats then
      .ok { pats := pats, weights := merged.map fun e => e.2.weight.map (·.toPWV cfg), tagWeight := some tw }
    else .err .invalidModel
  | .err x => .err x
  | .panic p => .panic p
  | .ub p => .ub p

def tagEntries (tagNgrams : List (List (TagNgramData α))) : List (List α × PWT) :=
  (tagNgrams.zipIdx).flatMap fun (tm, i) =>
    tm.flatMap fun d => d.weights.map fun w => (d.ngram, ({ weight := none, tagInfo := [((i, w.rel), w.weights)] } : PWT))

def addAll {W : Type} (add : W → W → W) (es : List (List α × W)) (init : List (List α × W)) : List (List α × W) :=
  es.foldl (fun acc e => Merge.addEntry add acc e.1 e.2) init

/-- `CharScorer::new` -/
def charScorerNew (cfg : Cfg) (m : WModel) (tagNgrams : List (List (TagNgramData Char))) : Res (Option (PmaScorer Char)) :=
  let noTagNgrams := !cfg.tagPred || tagNgrams.all (·.isEmpty)
  -- (fix) a window size of 0 disables the boundary n-grams only
  let m : WModel := if m.charW = 0 then { m with charNgrams := [] } else m
  if m.charNgrams.isEmpty && m.dict.isEmpty && noTagNgrams then .ok none
  else if m.dict.any (fun d => 32767 < d.word.length) then .err .invalidModel
  else
    let off : Int := -(m.charW : Int)
    if cfg.tagPred && !tagNgrams.isEmpty then
      let es := m.charNgrams.map (fun d => (d.ngram, ({ weight := some ⟨off, d.weights⟩, tagInfo := [] } : PWT)))
        ++ m.dict.map (fun d => (d.word, ({ weight := some ⟨-(d.word.length : Int), d.weights⟩, tagInfo := [] } : PWT)))
        ++ tagEntries tagNgrams
      (buildBoundaryTag cfg m.charW tagNgrams.length (addAll PWT.add es [])).map some
    else
      let es := m.charNgrams.map (fun d => (d.ngram, (⟨off, d.weights⟩ : PW)))
        ++ m.dict.map (fun d => (d.word, (⟨-(d.word.length : Int), d.weights⟩ : PW)))
      (buildBoundary cfg (addAll PW.add es [])).map some

/-- `TypeScorer::new` -/
def typeScorerNew (cfg : Cfg) (m : WModel) (tagNgrams : List (List (TagNgramData Nat))) : Res (Option TypeScorer) :=
  let noTagNgrams := !cfg.tagPred || tagNgrams.all (·.isEmpty)
  -- (fix) a window size of 0 disables the boundary n-grams only
  let m : WModel := if m.typeW = 0 then { m with typeNgrams := [] } else m
  if m.typeNgrams.isEmpty && noTagNgrams then .ok none
  else
    let off : Int := -(m.typeW : Int)
    if cfg.tagPred && !tagNgrams.isEmpty then
      let es := m.typeNgrams.map (fun d => (d.ngram, ({ weight := some ⟨off, d.weights⟩, tagInfo := [] } : PWT)))
        ++ tagEntries tagNgrams
      (buildBoundaryTag cfg m.typeW tagNgrams.length (addAll PWT.add es [])).map fun s => some (.pma s)
    else if cfg.cache && m.typeW ≤ 3 then
      -- `TypeScorerBoundaryCache::new`: the automaton is built from the unmerged n-grams
      if pmaBuildOk (m.typeNgrams.map (·.ngram)) then .ok (some (.cache m.typeNgrams m.typeW)) else .err .invalidModel
    else
      let es := m.typeNgrams.map (fun d => (d.ngram, (⟨off, d.weights⟩ : PW)))
      (buildBoundary cfg (addAll PW.add es [])).map fun s => some (.pma s)

/-! ## predictor -/

structure TagPredictor where
  tags : List (List (List Char))
  bias : WV
deriving Repr

structure Predictor where
  charScorer : Option (PmaScorer Char)
  typeScorer : Option TypeScorer
  bias : Int
  /-- `HashMap<String, (u32, TagPredictor)>`, later insertions win -/
  tagPredictor : Option (List (List Char × Nat × TagPredictor))
  nTags : Nat
  storeTagScores : Bool
deriving Repr

/-- `Predictor::new(model, predict_tags)` -/
def Predictor.new (cfg : Cfg) (m : WModel) (predictTags : Bool) : Res Predictor :=
  if predictTags && !cfg.tagPred then .panic "tag prediction is unsupported" else
  let useTags := predictTags && cfg.tagPred
  let tagPredictor := if useTags then
      some ((m.tagModels.zipIdx).map fun (tm, i) => (tm.token, i, ({ tags := tm.tags, bias := WV.ofList cfg tm.bias } : TagPredictor)))
    else none
  let nTags := if useTags then m.tagModels.foldl (fun acc tm => max acc tm.tags.length) 0 else 0
  let tagChar := if useTags then m.tagModels.map (·.charNgrams) else []
  let tagType := if useTags then m.tagModels.map (·.typeNgrams) else []
  match charScorerNew cfg m tagChar with
  | .ok cs =>
    match typeScorerNew cfg m tagType with
    | .ok ts => .ok { charScorer := cs, typeScorer := ts, bias := m.bias, tagPredictor := tagPredictor,
                      nTags := nTags, storeTagScores := false }
    | .err e => .err e
    | .panic p => .panic p
    | .ub p => .ub p
  | .err e => .err e
  | .panic p => .panic p
  | .ub p => .ub p

def padding : Nat := fixedLen - 1

/-- one scorer pass over a sequence: `(buffer, states)` -/
def pmaAddScores (sc : PmaScorer α) (seq : List α) (buf : List Int) (states : List (Option Nat)) :
    Res (List Int × List (Option Nat)) :=
  let states0 := if sc.tagWeight.isSome then List.replicate seq.length none else states
  let rec go : List (Nat × Nat) → List Int → List (Option Nat) → Res (List Int × List (Option Nat))
    | [], buf, st => .ok (buf, st)
    | (e, id) :: r, buf, st =>
      match sc.weights[id]? with
      | none => .ub "weights.get_unchecked(m.value())"
      | some w =>
        let bufR : Res (List Int) := match w with
          | some pw => pw.addScore ((e : Int) + (padding : Int) - 1) buf
          | none => .ok buf
        match bufR with
        | .ok buf' =>
          if sc.tagWeight.isSome then
            if e - 1 < st.length ∧ 1 ≤ e then go r buf' (st.set (e - 1) (some id))
            else .ub "pma_states.get_unchecked_mut(end - 1)"
          else go r buf' st
        | .err x => .err x
        | .panic p => .panic p
        | .ub p => .ub p
  go (matchesNoSuffix sc.pats seq) buf states0

/-- `seqid_to_seq` + the table entry of `TypeScorerBoundaryCache::new`, computed on demand -/
def seqOfId (len : Nat) (id : Nat) : List Nat :=
  (List.range len).map fun k => (id / 8 ^ (len - 1 - k)) % 8

def cacheEntry (ngrams : List (NgramData Nat)) (window : Nat) (seqid : Nat) : Int :=
  let seq := seqOfId (2 * window) seqid
  if seq.contains 7 then 0 else
  ((matchesAll (ngrams.map (·.ngram)) seq).map fun (e, id) =>
    match (ngrams.getD id ⟨[], []⟩).weights[2 * window - e]? with
    | some w => w
    | none => 0).sum

def seqMask (window : Nat) : Nat := 8 ^ (2 * window)

/-- `TypeScorerBoundaryCache::add_scores` -/
def cacheAddScores (ngrams : List (NgramData Nat)) (window : Nat) (types : List Nat) (nBounds : Nat) (buf : List Int) :
    Res (List Int) :=
  let inc (seqid : Nat) (i : Nat) : Nat :=
    match types[i]? with
    | some ct => (seqid * 8 + ct) % seqMask window
    | none => (seqid * 8) % seqMask window
  let seqid0 := (List.range window).foldl inc 0
  if padding + nBounds ≤ buf.length then
    let rec go : List Nat → Nat → List Int → List Int
      | [], _, acc => acc
      | i :: r, seqid, acc =>
        let seqid' := inc seqid (i + window)
        go r seqid' (acc ++ [cacheEntry ngrams window seqid'])
    let adds := go (List.range nBounds) seqid0 []
    .ok (addAt buf padding adds)
  else .panic "boundary_scores[padding..padding + boundaries.len()]"

/-- `Predictor::predict` -/
def Predictor.predict (p : Predictor) (pid : Nat) (s : Sentence) : Res Sentence :=
  let n := s.types.length
  let buf0 := List.replicate (padding * 2 + n - 1) p.bias
  let r1 : Res (List Int × List (Option Nat)) := match p.charScorer with
    | some sc => pmaAddScores sc s.text buf0 s.cstates
    | none => .ok (buf0, s.cstates)
  match r1 with
  | .ok (buf1, cst) =>
    let r2 : Res (List Int × List (Option Nat)) := match p.typeScorer with
      | some (.pma sc) => pmaAddScores sc s.types buf1 s.tstates
      | some (.cache ng w) => (cacheAddScores ng w s.types s.bounds.length buf1).map fun b => (b, [])
      | none => .ok (buf1, s.tstates)
    match r2 with
    | .ok (buf2, tst) =>
      let visible := buf2.drop padding
      let bounds := (s.bounds.zip visible).map (fun (_, x) => if x > 0 then B.W else B.N)
        ++ s.bounds.drop visible.length
      .ok { s with scores := buf2, padding := padding, cstates := cst, tstates := tst, bounds := bounds, pred := some pid }
    | .err e => .err e
    | .panic q => .panic q
    | .ub q => .ub q
  | .err e => .err e
  | .panic q => .panic q
  | .ub q => .ub q

/-! ## tag prediction -/

def lookupLast {β : Type} (k : List Char) : List (List Char × β) → Option β
  | [] => none
  | (k', v) :: r => match lookupLast k r with
    | some v' => some v'
    | none => if k' = k then some v else none

/-- first maximum of a non-empty slice (`if s > max_score`) -/
def argmaxFirst : List Int → Nat → Nat → Option Int → Nat
  | [], _, best, _ => best
  | x :: r, i, best, cur =>
    match cur with
    | none => argmaxFirst r (i + 1) i (some x)
    | some m => if x > m then argmaxFirst r (i + 1) i (some x) else argmaxFirst r (i + 1) best cur

/-- `TagPredictor::predict` on one token's tag slots -/
def TagPredictor.predict (tp : TagPredictor) (scores : List Int) : List (List (List Char)) → Nat → List Tag → Res (List Tag)
  | [], _, slots => .ok slots
  | _ :: _, _, [] => .ok []
  | cands :: r, offset, slot :: slots =>
    if 2 ≤ cands.length then
      if offset + cands.length ≤ scores.length then
        let idx := argmaxFirst ((scores.drop offset).take cands.length) 0 0 none
        match tp.predict scores r (offset + cands.length) slots with
        | .ok rest => .ok (some (cands.getD idx []) :: rest)
        | e => e
      else .panic "scores[offset..offset + tag_cands.len()]"
    else
      let _ := slot
      match tp.predict scores r offset slots with
      | .ok rest => .ok (cands.head? :: rest)
      | e => e

/-- `…::add_tag_scores(token_id, pos, sentence, scores)` -/
def pmaAddTagScores (sc : PmaScorer α) (tid pos : Nat) (states : List (Option Nat)) (scores : List Int) : Res (List Int) :=
  match sc.tagWeight with
  | none => .panic "unsupported"
  | some tw =>
    match tw[tid]? with
    | none => .ub "tag_weight.get_unchecked(token_id)"
    | some row =>
      if states.length < pos then .ub "pma_states.get_unchecked(pos..)" else
      let rec go : List (Option Nat) → List (List (Nat × WV)) → List Int → Res (List Int)
        | [], _, sc => .ok sc
        | _, [], sc => .ok sc
        | st :: sr, m :: mr, sc =>
          match st.bind (fun id => (m.reverse.find? (fun e => e.1 = id)).map Prod.snd) with
          | some w =>
            match w.addScores sc with
            | .ok sc' => go sr mr sc'
            | e => e
          | none => go sr mr sc
      go (states.drop pos) row scores

def typeAddTagScores (ts : TypeScorer) (tid pos : Nat) (states : List (Option Nat)) (scores : List Int) : Res (List Int) :=
  match ts with
  | .pma sc => pmaAddTagScores sc tid pos states scores
  | .cache _ _ => .panic "unsupported"

/-- the per-token block of `predict_tags` -/
def tagToken (p : Predictor) (tpm : List (List Char × Nat × TagPredictor)) (s : Sentence) (st i : Nat) : Res Sentence :=
  match s.substring st (i + 1) with
  | .ok token =>
    match lookupLast token tpm with
    | none => .ok s
    | some (tid, tp) =>
      let scores0 := List.replicate tp.bias.len (0 : Int)
      match tp.bias.addScores scores0 with
      | .ok sc1 =>
        let r2 := match p.charScorer with
          | some sc => pmaAddTagScores sc tid i s.cstates sc1
          | none => .ok sc1
        match r2 with
        | .ok sc2 =>
          let r3 := match p.typeScorer with
            | some ts => typeAddTagScores ts tid i s.tstates sc2
            | none => .ok sc2
          match r3 with
          | .ok sc3 =>
            if (i + 1) * p.nTags ≤ s.tags.length then
              match tp.predict sc3 tp.tags 0 ((s.tags.drop (i * p.nTags)).take p.nTags) with
              | .ok slots =>
                let tags := s.tags.take (i * p.nTags) ++ slots ++ s.tags.drop ((i + 1) * p.nTags)
                let ts := if s.tagScores.isEmpty then s.tagScores
                          else s.tagScores.set i (some (tp.tags, sc3))
                .ok { s with tags := tags, tagScores := ts }
              | .err e => .err e
              | .panic q => .panic q
              | .ub q => .ub q
            else .panic "sentence.tags[i * n_tags..(i + 1) * n_tags]"
          | .err e => .err e
          | .panic q => .panic q
          | .ub q => .ub q
        | .err e => .err e
        | .panic q => .panic q
        | .ub q => .ub q
      | .err e => .err e
      | .panic q => .panic q
      | .ub q => .ub q
  | .err e => .err e
  | .panic q => .panic q
  | .ub q => .ub q

/-- `Predictor::predict_tags` -/
def Predictor.predictTags (p : Predictor) (s : Sentence) : Res Sentence :=
  match p.tagPredictor with
  | none => .panic "this predictor is created with predict_tags = false"
  | some tpm =>
    let n := s.types.length
    -- (fix F-C20b) the score slots are allocated before the early return for models without tag categories
    let s := { s with tagScores := if p.storeTagScores then List.replicate n none else [] }
    if p.nTags = 0 then .ok s else
    let s1 := { s with nTags := p.nTags, tags := List.replicate (n * p.nTags) none }
    let rec go : List B → Nat → Option Nat → Sentence → Res (Sentence × Option Nat)
      | [], _, rs, s => .ok (s, rs)
      | b :: r, i, rs, s =>
        match b with
        | .U => go r (i + 1) none s
        | .N => go r (i + 1) rs s
        | .W =>
          match rs with
          | some st =>
            match tagToken p tpm s st i with
            | .ok s' => go r (i + 1) (some (i + 1)) s'
            | .err e => .err e
            | .panic q => .panic q
            | .ub q => .ub q
          | none => go r (i + 1) (some (i + 1)) s
    match go s1.bounds 0 (some 0) s1 with
    | .ok (s2, some st) =>
      if n = 0 then .panic "sentence.len() - 1" else tagToken p tpm s2 st (n - 1)
    | .ok (s2, none) => .ok s2
    | .err e => .err e
    | .panic q => .panic q
    | .ub q => .ub q

/-- `Sentence::fill_tags` with the predictor environment -/
def Sentence.fillTags (env : Nat → Option Predictor) (s : Sentence) : Res Sentence :=
  match s.pred with
  | none => .ok s
  | some pid =>
    match env pid with
    | some p => p.predictTags s
    | none => .ok s

end V

namespace V

/-- the loop of `Token::tag_candidates` over the categories: a single candidate is reported with score 0,
otherwise every candidate with `scores[i]` (a checked index), `i` running over the trainable classes -/
def candidatesLoop : List (List (List Char)) → List Int → Nat → Res (List (List (List Char × Int)))
  | [], _, _ => .ok []
  | cands :: r, scores, i =>
    if cands.length = 1 then
      match candidatesLoop r scores i with
      | .ok rest => .ok ([(cands.headD [], 0)] :: rest)
      | e => e
    else if i + cands.length ≤ scores.length then
      match candidatesLoop r scores (i + cands.length) with
      | .ok rest => .ok ((cands.zip ((scores.drop i).take cands.length)) :: rest)
      | e => e
    else .panic "tag_candidates: scores[i]"

/-- `Token::tag_candidates()` of the token that ends at character `en` -/
def Sentence.tagCandidates (s : Sentence) (en : Nat) : Res (List (List (List Char × Int))) :=
  if s.tagScores.isEmpty then .panic "Predictor::store_tag_scores() must be set to true to use this function."
  else
    match s.tagScores[en - 1]? with
    | none => .panic "tag_scores[self.end - 1]"
    | some none => .ok []
    | some (some (tags, scores)) => candidatesLoop tags scores 0

end V
