//! vfeat: the predictor under one cargo-feature subset of vaporetto (C13).
//! Reads `F <cfg> <model> <predict_tags 0|1> <hex text>` lines, answers `S<scores>;B<labels>[;K<n_tags>;G<tags>]`,
//! and `B <model>` lines (C07 under this feature set): hex of `to_vec()` of the model read back from its file bytes
//! (through `read_slice`, and through `read`/`write` as well when `std` is compiled in).
#[path = "../../harness/src/model.rs"]
#[allow(dead_code)]
mod model;
#[path = "../../harness/src/util.rs"]
#[allow(dead_code)]
mod util;

use std::io::{BufRead, Write};

use vaporetto::{CharacterBoundary, Predictor, Sentence};

fn label_char(b: CharacterBoundary) -> char {
    match b {
        CharacterBoundary::NotWordBoundary => 'N',
        CharacterBoundary::WordBoundary => 'W',
        CharacterBoundary::Unknown => 'U',
    }
}

fn compiled_cfg() -> String {
    let mut s = String::new();
    if cfg!(feature = "fix-weight-length") {
        s.push('f');
    }
    if cfg!(feature = "cache-type-score") {
        s.push('c');
    }
    if cfg!(feature = "tag-prediction") {
        s.push('t');
    }
    if s.is_empty() {
        s.push('-');
    }
    s
}

fn run_model_case(m: &str) -> String {
    let Some(m) = model::AbsModel::parse(m) else { return "bad-case".into() };
    let bytes = m.to_bytes();
    let r = util::catch(|| {
        let (model, rest) = vaporetto::Model::read_slice(&bytes).map_err(|_| "err:read_slice".to_string())?;
        if !rest.is_empty() {
            return Err("err:rest".to_string());
        }
        let v = model.to_vec().map_err(|_| "err:to_vec".to_string())?;
        #[cfg(feature = "std")]
        {
            let m2 = vaporetto::Model::read(&bytes[..]).map_err(|_| "err:read".to_string())?;
            let mut w = vec![];
            m2.write(&mut w).map_err(|_| "err:write".to_string())?;
            if w != v {
                return Err(format!("err:read-write-differs-from-read_slice-to_vec:{}", util::hex(&w)));
            }
        }
        Ok::<String, String>(util::hex(&v))
    });
    match r {
        Ok(Ok(s)) => s,
        Ok(Err(e)) => e,
        Err(_) => "panic".into(),
    }
}

fn run_case(line: &str) -> String {
    let t: Vec<&str> = line.split(' ').collect();
    if let ["B", m, ..] = t.as_slice() {
        return run_model_case(m);
    }
    let ["F", _cfg, m, pt, h, ..] = t.as_slice() else { return "bad-case".into() };
    let Some(m) = model::AbsModel::parse(m) else { return "bad-case".into() };
    let Some(text) = util::unhexs(h) else { return "bad-case".into() };
    let want_tags = *pt == "1" && cfg!(feature = "tag-prediction");
    let r = util::catch(|| {
        let model = m.load().map_err(|e| format!("read:{e}"))?;
        let p = Predictor::new(model, want_tags).map_err(|_| "err:invalid_model".to_string())?;
        let observe = |p: &Predictor| -> Result<String, String> {
            let mut s = Sentence::from_raw(text.clone()).map_err(|_| "err:invalid_argument".to_string())?;
            p.predict(&mut s);
            let mut out = format!(
                "S{};B{}",
                s.boundary_scores().iter().map(|x| x.to_string()).collect::<Vec<_>>().join("."),
                if s.boundaries().is_empty() { "-".to_string() } else { s.boundaries().iter().map(|&b| label_char(b)).collect() }
            );
            #[cfg(feature = "tag-prediction")]
            if want_tags {
                s.fill_tags();
                out.push_str(&format!(
                    ";K{};G{}",
                    s.n_tags(),
                    s.tags().iter().map(|t| t.as_ref().map_or("~".to_string(), |t| util::hexs(t))).collect::<Vec<_>>().join(".")
                ));
            }
            Ok(out)
        };
        let mut out = observe(&p)?;
        // C14 under this feature set: the predictor that comes back from its own serialisation must give the same answer
        let data = p.serialize_to_vec().map_err(|_| "err:serialize".to_string())?;
        let rt = util::catch(std::panic::AssertUnwindSafe(|| {
            let (p2, rest) = unsafe { Predictor::deserialize_from_slice_unchecked(&data) }.map_err(|_| "err:deserialize".to_string())?;
            if !rest.is_empty() {
                return Err("err:rest".to_string());
            }
            observe(&p2)
        }));
        let out2 = match rt {
            Ok(Ok(o)) => o,
            Ok(Err(e)) => e,
            Err(_) => "panic".to_string(),
        };
        if out2 != out {
            out.push_str(&format!(";AFTER-SERIALISE-DESERIALISE:{out2}"));
        }
        Ok::<String, String>(out)
    });
    match r {
        Ok(Ok(s)) => s,
        Ok(Err(e)) => e,
        Err(_) => "panic".into(),
    }
}

fn main() {
    let args: Vec<String> = std::env::args().collect();
    if args.get(1).map(String::as_str) == Some("cfg") {
        println!("{}", compiled_cfg());
        return;
    }
    util::silence_panics();
    let stdin = std::io::stdin();
    let out = std::io::stdout();
    let mut out = std::io::BufWriter::new(out.lock());
    for line in stdin.lock().lines() {
        writeln!(out, "{}", run_case(line.unwrap().trim())).unwrap();
    }
    out.flush().unwrap();
}
