//! case generators for the sentence family (C02–C05)
use std::io::Write;

use crate::util::{hexs, Rng};

/// plain characters of 1–4 UTF-8 bytes and all six character types
pub const PLAIN: &[char] = &['a', 'Z', '7', 'é', 'あ', 'カ', 'ｶ', '漢', '𠮷', '。', '\u{3000}', '\r', '\n'];
/// characters that are special to at least one annotation format
pub const SPECIAL: &[char] = &[' ', '/', '\\', '-', '|'];

fn rand_text(r: &mut Rng, min: usize, max: usize, special_pct: usize) -> String {
    let n = r.range(min as i64, max as i64) as usize;
    (0..n)
        .map(|_| if r.chance(special_pct, 100) { *r.pick(SPECIAL) } else { *r.pick(PLAIN) })
        .collect()
}

fn rand_labels(r: &mut Rng, n: usize, alphabet: &[char]) -> String {
    if n == 0 {
        return "-".into();
    }
    (0..n).map(|_| *r.pick(alphabet)).collect()
}

fn all_strings(alphabet: &[char], max_len: usize, f: &mut dyn FnMut(&str)) {
    fn rec(alphabet: &[char], cur: &mut String, left: usize, f: &mut dyn FnMut(&str)) {
        if !cur.is_empty() {
            f(cur);
        }
        if left == 0 {
            return;
        }
        for &c in alphabet {
            cur.push(c);
            rec(alphabet, cur, left - 1, f);
            cur.pop();
        }
    }
    rec(alphabet, &mut String::new(), max_len, f);
}

fn all_labels(n: usize, f: &mut dyn FnMut(&str)) {
    if n == 0 {
        f("-");
        return;
    }
    let total = 3usize.pow(n as u32);
    for mut k in 0..total {
        let mut s = String::with_capacity(n);
        for _ in 0..n {
            s.push(['N', 'W', 'U'][k % 3]);
            k /= 3;
        }
        f(&s);
    }
}

pub fn gen_c02(out: &mut dyn Write, thorough: bool, seed: u64) {
    let mut r = Rng::new(seed);
    // corpus-like fixed cases first: consecutive segments containing unknown boundaries
    for t in ["a b|c d|e", "a b|c d|e f|g", "a|b c|d|e f", "a b", "a", "a|b"] {
        writeln!(out, "S Fpart:{},obs:TBKGIW c02", hexs(t)).unwrap();
    }
    // exhaustive: every label vector for n <= max_n characters on a multi-byte text
    let max_n = if thorough { 11 } else { 8 };
    let base: Vec<char> = "a漢𠮷 é/カ\\bあ7".chars().collect();
    for n in 1..=max_n {
        let text: String = base[..n].iter().collect();
        all_labels(n - 1, &mut |ls| {
            writeln!(out, "S Fraw:{},setbs:{},obs:TBKGIW c02", hexs(&text), ls).unwrap();
        });
    }
    scale_c02(out, &mut r);
    // a sentence that WAS predicted and whose labels were then overwritten (unknowns included) through boundaries_mut
    {
        use crate::model::{gen_model, gen_text, GenOpts};
        let opts = GenOpts { windows: &[1, 2, 3], max_ngrams: 4, max_words: 2, max_word_len: 3 };
        for _ in 0..(if thorough { 2000 } else { 150 }) {
            let (m, alpha) = gen_model(&mut r, &opts);
            let text = gen_text(&mut r, &m, &alpha, 10);
            let n = text.chars().count();
            if n < 2 {
                continue;
            }
            let labels = rand_labels(&mut r, n - 1, &['N', 'W', 'U', 'U']);
            writeln!(out, "H fct {}^00 Fraw:{},pred:0,setbs:{},obs:TBKGIW c02", m.to_text(), hexs(&text), labels).unwrap();
            // … and is then predicted again, by the same predictor: every label is decided anew
            writeln!(out, "H fct {}^00 Fraw:{},pred:0,setbs:{},pred:0,obs:TBKGIW c02p", m.to_text(), hexs(&text), labels).unwrap();
        }
    }
    // one sentence object, several contents in a row (constructor / update_raw / update_tokenized / update_partial_annotation):
    // ASCII-only text followed by multi-byte text and back, through every pair of entry points; the tokens are those of the LAST content
    for _ in 0..(if thorough { 4000 } else { 300 }) {
        let ascii: String = (0..r.range(1, 6)).map(|_| *r.pick(&['a', 'b', '1', 'Z'])).collect();
        let n = r.range(1, 6) as usize;
        let chars: Vec<char> = (0..n).map(|_| *r.pick(&['é', '漢', '𠮷', 'a', 'あ', 'ｶ'])).collect();
        let tok: String = chars.iter().enumerate().map(|(i, c)| if i > 0 && r.chance(1, 2) { format!(" {c}") } else { c.to_string() }).collect();
        let part: String = chars.iter().enumerate().map(|(i, c)| if i > 0 { format!("{}{c}", r.pick(&['|', '-', ' '])) } else { c.to_string() }).collect();
        let raw: String = chars.iter().collect();
        let first = match r.below(3) { 0 => format!("Fraw:{}", hexs(&ascii)), 1 => format!("Ftok:{}", hexs(&ascii)), _ => format!("Fpart:{}", hexs(&ascii.chars().map(|c| c.to_string()).collect::<Vec<_>>().join("-"))) };
        let second = match r.below(3) { 0 => format!("tok:{}", hexs(&tok)), 1 => format!("part:{}", hexs(&part)), _ => format!("raw:{}", hexs(&raw)) };
        writeln!(out, "S {first},{second},obs:TBKGIW c02").unwrap();
        // … and the other way round: multi-byte content first, ASCII content last
        let first2 = match r.below(2) { 0 => format!("Ftok:{}", hexs(&tok)), _ => format!("Fpart:{}", hexs(&part)) };
        let second2 = match r.below(3) { 0 => format!("tok:{}", hexs(&ascii)), 1 => format!("raw:{}", hexs(&ascii)), _ => format!("part:{}", hexs(&ascii.chars().map(|c| c.to_string()).collect::<Vec<_>>().join("|"))) };
        writeln!(out, "S {first2},{second2},{second},obs:TBKGIW c02").unwrap();
    }
    // random: longer texts, with tags on some characters
    let count = if thorough { 30000 } else { 1500 };
    for _ in 0..count {
        let text = rand_text(&mut r, 1, 40, 15);
        let n = text.chars().count();
        let weights: &[char] = match r.below(3) {
            0 => &['N', 'W', 'U'],
            1 => &['N', 'W', 'W', 'U', 'U'],
            _ => &['N', 'W'],
        };
        let labels = rand_labels(&mut r, n - 1, weights);
        let mut ops = format!("Fraw:{},setbs:{}", hexs(&text), labels);
        if r.chance(1, 2) {
            let k = r.range(1, 3) as usize;
            ops.push_str(&format!(",reset:{k}"));
            for i in 0..n * k {
                if r.chance(1, 3) {
                    ops.push_str(&format!(",sett:{}:{}", i, hexs(&rand_text(&mut r, 1, 3, 30))));
                }
            }
        }
        writeln!(out, "S {ops},obs:TBKGIW c02").unwrap();
    }
}


/// sizes around the powers of two at which narrow counters, block-wise scans and fixed buffers change behaviour
pub const SCALE_SIZES: &[usize] = &[15, 16, 17, 31, 33, 64, 127, 128, 129, 255, 256, 257, 300];

/// long sentences (C02): runs of non-boundaries longer than any block size with unknown labels placed at the start, in the
/// middle and at the end of a run, and fully labelled long sentences
pub fn scale_c02(out: &mut dyn Write, r: &mut Rng) {
    for &n in SCALE_SIZES {
        let text: String = (0..n).map(|i| ['a', '漢', 'カ', 'b', '𠮷', 'é'][i % 6]).collect();
        for pat in 0..8 {
            let labels: String = (0..n - 1)
                .map(|i| match pat {
                    0 => 'N',
                    1 => if i == 0 { 'U' } else { 'N' },
                    2 => if i == n - 2 { 'U' } else { 'N' },
                    3 => if i == n / 2 { 'U' } else { 'N' },
                    4 => if i % 20 == 19 { 'W' } else if i % 20 == 3 { 'U' } else { 'N' },
                    5 => if i % 17 == 16 { 'W' } else { 'N' },
                    6 => *r.pick(&['N', 'N', 'N', 'N', 'N', 'W', 'U']),
                    _ => 'W',
                })
                .collect();
            writeln!(out, "S Fraw:{},setbs:{},obs:TBKGIW c02", hexs(&text), labels).unwrap();
        }
    }
}

/// long sentences, delimiters near the end, many tags on one token, long tags (C03: tokenized; C04: partial annotation)
pub fn scale_formats(out: &mut dyn Write, r: &mut Rng, partial: bool) {
    let (obs, oracle) = if partial { ("TBKGP", "c04rt") } else { ("TBKGIW", "c03rt") };
    let special: &[char] = if partial { &[' ', '/', '\\', '-', '|'] } else { &[' ', '/', '\\'] };
    for &n in SCALE_SIZES {
        // a long text of 3-byte characters with ONE special character at varying distance from the end (or none)
        for back in [0usize, 1, 2, 5, 15, 16, 17, 40] {
            if back >= n {
                continue;
            }
            let sp = *r.pick(special);
            let text: String = (0..n).map(|i| if back > 0 && i == n - back { sp } else { ['あ', '漢', 'カ'][i % 3] }).collect();
            let labels: String = (0..n - 1).map(|i| if partial { ['N', 'N', 'W', 'U'][(i / 7) % 4] } else if i % 23 == 22 { 'W' } else { 'N' }).collect();
            // one tag on the last character, containing a special character as well
            writeln!(out, "S Fraw:{},setbs:{},reset:1,sett:{}:{},obs:{obs} {oracle}", hexs(&text), labels, n - 1, hexs(&format!("t{sp}g"))).unwrap();
        }
    }
    // many tags on one token / character, and long tags
    for &k in &[8usize, 17, 255, 256, 257, 300] {
        let text = "ab c";
        let n = text.chars().count();
        let labels = if partial { "WUN" } else { "WNN" };
        let mut ops = format!("Fraw:{},setbs:{},reset:{k}", hexs(text), labels);
        // all k slots of the last character, the last slot only of the first one
        for j in 0..k {
            ops.push_str(&format!(",sett:{}:{}", (n - 1) * k + j, hexs(&format!("t{j}"))));
        }
        ops.push_str(&format!(",sett:{}:{}", k - 1, hexs("z")));
        writeln!(out, "S {ops},obs:{obs} {oracle}").unwrap();
    }
    for &len in &[255usize, 256, 257, 1000, 4096, 4097] {
        let tag: String = (0..len).map(|i| ['t', 'あ', '/', ' '][i % 4]).collect();
        writeln!(out, "S Fraw:{},setbs:W,reset:1,sett:1:{},obs:{obs} {oracle}", hexs("ab"), hexs(&tag)).unwrap();
    }
}

/// long and heavily tagged inputs through the parsers directly (C05), as constructor and as update of a used sentence
pub fn scale_c05(out: &mut dyn Write) {
    for &k in &[255usize, 256, 257, 300] {
        let tags: String = (0..k).map(|j| format!("/t{j}")).collect();
        for (kind, input) in [("tok", format!("ab{tags} c/x")), ("tok", format!("a{}", "/".repeat(k))), ("part", format!("a{tags}-b|c/y")), ("part", format!("a|b{}", "/".repeat(k)))] {
            let h = hexs(&input);
            writeln!(out, "S F{kind}:{h},obs c05").unwrap();
            writeln!(out, "S tok:612f78206263,{kind}:{h},obs,raw:6162,obs c05").unwrap();
        }
    }
    for &n in SCALE_SIZES {
        let raw: String = (0..n).map(|i| ['a', '漢', ' ', 'カ'][i % 4]).collect();
        let tok: String = (0..n).map(|i| format!("{}{}", if i > 0 && i % 5 == 0 { " " } else { "" }, ['a', '漢', 'カ'][i % 3])).collect();
        let part: String = (0..n).map(|i| format!("{}{}", if i > 0 { ["-", "|", " "][i % 3] } else { "" }, ['a', '漢', 'カ'][i % 3])).collect();
        for (kind, input) in [("raw", raw), ("tok", tok), ("part", part)] {
            let h = hexs(&input);
            writeln!(out, "S F{kind}:{h},obs c05").unwrap();
            writeln!(out, "S part:612f782d62,{kind}:{h},obs c05").unwrap();
        }
    }
}

/// every Unicode scalar value (except NUL, which `from_raw` rejects) as a token of its own and as a tag, 64 per case
pub fn gen_all_scalars(out: &mut dyn Write, oracle: &str) {
    let mut chunk = String::new();
    let mut n = 0;
    for c in (1u32..=0x10FFFF).filter_map(char::from_u32) {
        chunk.push(c);
        n += 1;
        if n == 64 {
            writeln!(out, "X {} {oracle}", hexs(&chunk)).unwrap();
            chunk.clear();
            n = 0;
        }
    }
    if !chunk.is_empty() {
        writeln!(out, "X {} {oracle}", hexs(&chunk)).unwrap();
    }
    writeln!(out, "X {} {oracle}", hexs("a\0b")).unwrap();
}

/// special scalar values (format characters, controls, white space, noncharacters, plane edges) and scalar values that alias a
/// format character under truncation, at the positions where a parser or writer might treat them specially: first, last, alone,
/// doubled, directly behind a backslash, first and last in a tag
fn special_positions(out: &mut dyn Write, partial: bool) {
    let mut cs = crate::util::special_scalars();
    cs.extend(crate::util::alias_scalars());
    cs.retain(|c| *c != '\0');
    cs.sort();
    cs.dedup();
    let (obs, orc) = if partial { ("TBKGP", "c04rt") } else { ("TBKGIW", "c03rt") };
    for (k, &c) in cs.iter().enumerate() {
        let texts: [String; 4] = [c.to_string(), format!("{c}a"), format!("あ{c}"), format!("{c}{c}")];
        let tags: [String; 5] = [String::new(), c.to_string(), format!("\\{c}"), format!("{c}\\"), format!("x{c}y")];
        for (ti, text) in texts.iter().enumerate() {
            let n = text.chars().count();
            // tokenized format: fully segmented; partial annotation: the labels vary
            let labels: String = if n == 1 { "-".into() } else if partial { ["W", "N", "U"][(k + ti) % 3].to_string() } else { "W".to_string() };
            for (gi, tag) in tags.iter().enumerate() {
                if (k + ti + gi) % 2 == 1 && gi > 1 {
                    continue;
                }
                let mut ops = format!("Fraw:{},setbs:{},reset:1", hexs(text), labels);
                if !tag.is_empty() {
                    // tags of a token live on its last character
                    let idx = if !partial && labels == "W" { gi % n } else { n - 1 };
                    ops.push_str(&format!(",sett:{}:{}", idx, hexs(tag)));
                }
                writeln!(out, "S {ops},obs:{obs} {orc}").unwrap();
            }
        }
        if !partial {
            for s in [c.to_string(), format!("{c}a"), format!("a{c}"), format!("{c}{c}"), format!("\\{c}"), format!("{c}/{c}"), format!("a/\\{c} {c}/x")] {
                writeln!(out, "S Ftok:{},obs:TBKGIW c03idem", hexs(&s)).unwrap();
            }
        } else {
            for s in [c.to_string(), format!("{c}|a"), format!("a-{c}"), format!("{c} {c}"), format!("a/\\{c}|b"), format!("{c}/{c}-{c}/x\\{c}")] {
                writeln!(out, "S Fpart:{},obs:TBKGP c04rt", hexs(&s)).unwrap();
            }
        }
    }
}

pub fn gen_c03(out: &mut dyn Write, thorough: bool, seed: u64) {
    gen_all_scalars(out, "c03");
    special_positions(out, false);
    let mut r = Rng::new(seed);
    // the one fully segmented sentence that no parser builds: the single-space sentence of `Sentence::default()` and of every
    // rejected update (its text needs escaping)
    for ops in ["new", "Fraw:6162,raw:6100", "Ftok:612f78,tok:2061", "new,part:6178", "Fraw:6162,tok:612020,reset:1"] {
        writeln!(out, "S {ops},obs:TBKGIW c03rt").unwrap();
    }
    // … and a tagged sentence that has been through a prediction before it is written
    {
        let m = crate::model::AbsModel { char_w: 1, type_w: 1, bias: 1, char_ngrams: vec![("a".into(), vec![2, -3])], ..Default::default() };
        for tok in ["ab/x c/y/z", "a/t b\\ c/u"] {
            writeln!(out, "H {} {}^00 Ftok:{},pred:0,obs:TBKGIW c03rt", crate::gen_pred::CFG, m.to_text(), hexs(tok)).unwrap();
        }
    }
    for t in ["a\\ b/x\\/y c", "a/x//z b", "\\\\/\\ ", "a//", "a\\", "\\"] {
        writeln!(out, "S Ftok:{},obs:TBKGIW c03idem", hexs(t)).unwrap();
    }
    scale_formats(out, &mut r, false);
    // cross-format: fully segmented sentences that come out of the PARTIAL-ANNOTATION parser, written as tokenized text
    for _ in 0..(if thorough { 20000 } else { 1500 }) {
        let n = r.range(1, 6) as usize;
        let mut p = String::new();
        for i in 0..n {
            if i > 0 {
                p.push(*r.pick(&['-', '|']));
            }
            p.push(*r.pick(&['a', 'あ', '漢', 'b']));
            for _ in 0..r.below(3) {
                p.push('/');
                for _ in 0..r.range(0, 3) {
                    let c = *r.pick(&['x', '名', '\\', '/', ' ', '-']);
                    if matches!(c, '\\' | '/' | ' ' | '-' | '|') {
                        p.push('\\');
                    }
                    p.push(c);
                }
            }
        }
        writeln!(out, "S Fpart:{},obs:TBKGIW c03rt", hexs(&p)).unwrap();
    }
    // round trip: arbitrary fully segmented sentences with tags on tokens
    let count = if thorough { 200000 } else { 6000 };
    for _ in 0..count {
        let text = rand_text(&mut r, 1, 12, 35);
        let n = text.chars().count();
        let labels = rand_labels(&mut r, n - 1, &['N', 'W']);
        let k = r.below(4);
        let mut ops = format!("Fraw:{},setbs:{},reset:{k}", hexs(&text), labels);
        let lab: Vec<char> = labels.chars().collect();
        for i in 0..n {
            let token_end = i == n - 1 || lab[i] == 'W';
            for j in 0..k {
                // tags of a token live on its last character; others are set rarely (the writer ignores them)
                let p = if token_end { 60 } else { 5 };
                if r.chance(p, 100) {
                    ops.push_str(&format!(",sett:{}:{}", i * k + j, hexs(&rand_text(&mut r, 1, 4, 40))));
                }
            }
        }
        writeln!(out, "S {ops},obs:TBKGIW c03rt").unwrap();
    }
    // idempotence: every string over a 7-symbol alphabet up to a length, and random longer ones
    let max_len = if thorough { 6 } else { 4 };
    all_strings(&['a', 'あ', ' ', '/', '\\', '\0', '𠮷'], max_len, &mut |s| {
        writeln!(out, "S Ftok:{},obs:TBKGIW c03idem", hexs(s)).unwrap();
    });
    let count = if thorough { 100000 } else { 3000 };
    for _ in 0..count {
        let s = rand_text(&mut r, 1, 16, 45);
        writeln!(out, "S Ftok:{},obs:TBKGIW c03idem", hexs(&s)).unwrap();
    }
}

pub fn gen_c04(out: &mut dyn Write, thorough: bool, seed: u64) {
    gen_all_scalars(out, "c04");
    special_positions(out, true);
    let mut r = Rng::new(seed);
    // "any sentence": also one that has been through a prediction since it was annotated (a predictor is attached, the labels are
    // the predictor's, the tags — on any character — are still the annotator's), relabelled afterwards or predicted twice
    {
        let m = crate::model::AbsModel { char_w: 1, type_w: 1, bias: -1, char_ngrams: vec![("a".into(), vec![2, -3])], ..Default::default() };
        for annot in ["a/x-b/y|c/z-a", "a/t1/t2-a-b/u|a", "あ/名 a/x-い/y", "b/p q-b/\\|r b/s"] {
            for ops in ["pred:0", "pred:0,setb:0:N", "pred:0,pred:0", "pred:0,setb:1:U"] {
                writeln!(out, "H {} {}^00 Fpart:{},{ops},obs:TBKGP c04rt", crate::gen_pred::CFG, m.to_text(), hexs(annot)).unwrap();
            }
        }
    }
    for (t, l, tags) in [("abc", "NU", vec![(1usize, "x-y")]), ("ab", "W", vec![(0, "a|b"), (1, "c d\\e/f")])] {
        let mut ops = format!("Fraw:{},setbs:{},reset:1", hexs(t), l);
        for (i, tag) in tags {
            ops.push_str(&format!(",sett:{}:{}", i, hexs(tag)));
        }
        writeln!(out, "S {ops},obs:TBKGP c04rt").unwrap();
    }
    scale_formats(out, &mut r, true);
    // cross-format: sentences that come out of the TOKENIZED parser (where '-' and '|' are ordinary characters of a tag) are
    // written as partial annotation and read back
    for _ in 0..(if thorough { 20000 } else { 1500 }) {
        let n_tok = r.range(1, 4);
        let toks: Vec<String> = (0..n_tok)
            .map(|_| {
                let surf: String = (0..r.range(1, 3)).map(|_| *r.pick(&['a', 'あ', '漢', '-', '|'])).collect();
                let surf: String = surf.chars().map(|c| c.to_string()).collect();
                let tags: String = (0..r.below(3)).map(|_| format!("/{}", (0..r.range(0, 4)).map(|_| *r.pick(&['x', '名', '-', '|', '-', '|'])).collect::<String>())).collect();
                format!("{surf}{tags}")
            })
            .collect();
        writeln!(out, "S Ftok:{},obs:TBKGP c04rt", hexs(&toks.join(" "))).unwrap();
    }
    let count = if thorough { 200000 } else { 6000 };
    for _ in 0..count {
        let text = rand_text(&mut r, 1, 10, 35);
        let n = text.chars().count();
        let labels = rand_labels(&mut r, n - 1, &['N', 'W', 'U']);
        let k = r.below(4);
        let mut ops = format!("Fraw:{},setbs:{},reset:{k}", hexs(&text), labels);
        for i in 0..n * k {
            if r.chance(45, 100) {
                ops.push_str(&format!(",sett:{}:{}", i, hexs(&rand_text(&mut r, 1, 4, 60))));
            }
        }
        writeln!(out, "S {ops},obs:TBKGP c04rt").unwrap();
    }
    // every short string through the parser (correspondence only; the property is about write -> parse)
    let max_len = if thorough { 5 } else { 4 };
    all_strings(&['a', 'あ', ' ', '/', '\\', '-', '|', '𠮷'], max_len, &mut |s| {
        writeln!(out, "S Fpart:{},obs:TBKGP", hexs(s)).unwrap();
    });
}

fn malformed(r: &mut Rng) -> String {
    let alphabet: &[char] = &['a', 'あ', '𠮷', ' ', '/', '\\', '-', '|', '\0'];
    let n = r.below(9);
    (0..n).map(|_| *r.pick(alphabet)).collect()
}

fn wellformed(r: &mut Rng, kind: usize) -> String {
    // mostly valid inputs of each format
    let n = r.range(1, 6) as usize;
    let mut s = String::new();
    for i in 0..n {
        let c = *r.pick(PLAIN);
        match kind {
            0 => s.push(c),
            1 => {
                if i > 0 && r.chance(1, 2) {
                    s.push(' ');
                }
                s.push(c);
                let last = i == n - 1;
                if r.chance(1, 3) || (last && r.chance(1, 2)) {
                    for _ in 0..r.range(1, 3) {
                        s.push('/');
                        if r.chance(3, 4) {
                            s.push(*r.pick(PLAIN));
                        }
                    }
                }
            }
            _ => {
                if i > 0 {
                    s.push(*r.pick(&['-', '|', ' ']));
                }
                s.push(c);
                if r.chance(1, 3) {
                    for _ in 0..r.range(1, 3) {
                        s.push('/');
                        if r.chance(3, 4) {
                            s.push(*r.pick(PLAIN));
                        }
                    }
                }
            }
        }
    }
    s
}

pub fn gen_c05(out: &mut dyn Write, thorough: bool, seed: u64) {
    let mut r = Rng::new(seed);
    // corpus: the inputs that failed on the pinned tree
    writeln!(out, "S Ftok:{},obs c05", hexs("\\")).unwrap();
    writeln!(out, "S tok:{},obs c05", hexs("\\")).unwrap();
    writeln!(out, "S tok:{},obs,raw:{},obs c05", hexs("a/x b/y"), hexs("cd")).unwrap();
    writeln!(out, "S part:{},obs,raw:{},obs,reset:2,obs,tok:{},obs c05", hexs("a/x-b"), hexs("c"), hexs("\\")).unwrap();
    // exhaustive: every short string through every parser, as constructor and as update of a used sentence
    let max_len = if thorough { 5 } else { 4 };
    all_strings(&['a', 'あ', ' ', '/', '\\', '\0', '|'], max_len, &mut |s| {
        let h = hexs(s);
        for k in ["raw", "tok", "part"] {
            writeln!(out, "S F{k}:{h},obs c05").unwrap();
            writeln!(out, "S tok:612f78206263,{k}:{h},obs c05").unwrap();
        }
    });
    // special scalar values (controls, white space of every kind, the byte order mark, joiners, directional marks,
    // noncharacters, plane edges ...) at the start, at the end and alone, through every parser as constructor and as update
    for c in crate::util::special_scalars() {
        for t in [format!("{c}"), format!("{c}a"), format!("a{c}"), format!("{c}{c}b"), format!("a {c}"), format!("{c}-a|b")] {
            let h = hexs(&t);
            for k in ["raw", "tok", "part"] {
                writeln!(out, "S F{k}:{h},obs c05").unwrap();
                writeln!(out, "S tok:612f78206263,{k}:{h},obs c05").unwrap();
            }
        }
    }
    scale_c05(out);
    // updates of a sentence that carries prediction results (scores, predictor link, tags): after the update nothing of them
    // may be left, also when the new input equals the old one
    {
        use crate::model::{gen_model, gen_tag_models, gen_text_tags, GenOpts};
        let opts = GenOpts { windows: &[1, 2, 3], max_ngrams: 4, max_words: 2, max_word_len: 3 };
        for _ in 0..(if thorough { 1500 } else { 120 }) {
            let (mut m, alpha) = gen_model(&mut r, &opts);
            gen_tag_models(&mut r, &mut m, &alpha, 2);
            let x = gen_text_tags(&mut r, &m, &alpha, 8);
            let y = gen_text_tags(&mut r, &m, &alpha, 8);
            let mt = m.to_text();
            for (k, input) in [("raw", x.clone()), ("raw", y.clone()), ("tok", x.clone()), ("part", x.chars().map(|c| c.to_string()).collect::<Vec<_>>().join("-"))] {
                if input.contains([' ', '/', '\\', '-', '|']) && k != "raw" {
                    continue;
                }
                writeln!(out, "H fct {mt}^11 raw:{},pred:0,fill,{k}:{},obs c05", hexs(&x), hexs(&input)).unwrap();
                writeln!(out, "H fct {mt}^11 raw:{},pred:0,{k}:{},fill,obs c05", hexs(&x), hexs(&input)).unwrap();
            }
        }
    }
    writeln!(out, "S Fraw:-,obs c05\nS Ftok:-,obs c05\nS Fpart:-,obs c05\nS raw:-,obs c05\nS tok:-,obs c05\nS part:-,obs c05").unwrap();
    // exhaustive: all op sequences up to length 3 over a 9-op alphabet
    let alpha: Vec<String> = vec![
        format!("raw:{}", hexs("あb")),
        format!("raw:{}", hexs("")),
        format!("tok:{}", hexs("a/x b/y/z")),
        format!("tok:{}", hexs("a  b")),
        format!("part:{}", hexs("a/p|b c")),
        format!("part:{}", hexs("ab")),
        "reset:0".into(),
        "reset:2".into(),
        format!("tok:{}", hexs("\\")),
    ];
    let max_seq = if thorough { 4 } else { 3 };
    let mut idx = vec![0usize; 0];
    fn rec(alpha: &[String], idx: &mut Vec<usize>, max: usize, out: &mut dyn Write) {
        if !idx.is_empty() {
            let ops: Vec<String> = idx.iter().map(|&i| format!("{},obs", alpha[i])).collect();
            writeln!(out, "S {} c05", ops.join(",")).unwrap();
        }
        if idx.len() == max {
            return;
        }
        for i in 0..alpha.len() {
            idx.push(i);
            rec(alpha, idx, max, out);
            idx.pop();
        }
    }
    rec(&alpha, &mut idx, max_seq, out);
    // random histories
    let count = if thorough { 150000 } else { 5000 };
    for _ in 0..count {
        let len = r.range(1, 6) as usize;
        let mut ops: Vec<String> = vec![];
        for _ in 0..len {
            let kind = r.below(3);
            let text = if r.chance(1, 3) { malformed(&mut r) } else { wellformed(&mut r, kind) };
            let name = ["raw", "tok", "part"][kind];
            match r.below(8) {
                0 => ops.push(format!("reset:{}", r.below(4))),
                1 => ops.push(format!("F{name}:{}", hexs(&text))),
                _ => ops.push(format!("{name}:{}", hexs(&text))),
            }
            ops.push("obs".into());
        }
        writeln!(out, "S {} c05", ops.join(",")).unwrap();
    }
}

/// texts with ZWJ sequences, regional indicators, combining marks, Hangul jamo, CR/LF and all six character types
pub fn grapheme_text(r: &mut Rng, max_units: usize) -> String {
    const UNITS: &[&str] = &[
        "a", "Z", "7", "９", "あ", "カ", "ｶ", "漢", "𠮷", "。", " ", "\r", "\n", "\r\n", "e\u{301}", "か\u{3099}", "👨\u{200d}👩\u{200d}👧",
        "🇯🇵", "🇺", "\u{200d}", "\u{301}", "🏳\u{fe0f}\u{200d}🌈", "각", "\u{1100}\u{1161}\u{11a8}", "👍🏽", "\u{600}a", "ก\u{e33}",
        "ｶ\u{ff9e}", "ﾊ\u{ff9f}", "a\u{ff9e}", "漢\u{ff9f}",
    ];
    let n = r.range(1, max_units as i64) as usize;
    (0..n).map(|_| *r.pick(UNITS)).collect()
}

pub fn gen_c15(out: &mut dyn Write, thorough: bool, seed: u64) {
    use crate::filt::cluster_lengths;
    let mut r = Rng::new(seed ^ 0xC15);
    let emit = |out: &mut dyn Write, r: &mut Rng, text: &str, labels: &str| {
        let n = text.chars().count();
        let mut pre = format!("Fraw:{},setbs:{}", hexs(text), labels);
        let k = r.below(3);
        if k > 0 {
            pre.push_str(&format!(",reset:{k}"));
            for i in 0..n * k {
                if r.chance(1, 3) {
                    // incl. a present-but-EMPTY tag (distinct from an absent one; reachable through tags_mut)
                    pre.push_str(&format!(",sett:{}:{}", i, hexs(["x", "名詞", "y z", ""][r.below(4)])));
                }
            }
        }
        let cl = cluster_lengths(text).iter().map(|x| x.to_string()).collect::<Vec<_>>().join(".");
        for t in 1..=6 {
            writeln!(out, "S {pre},filter:ws:{t},obs:TYBKG c15").unwrap();
        }
        writeln!(out, "S {pre},filter:lb,obs:TYBKG c15").unwrap();
        writeln!(out, "S {pre},filter:gc:{},obs:TYBKG c15", if cl.is_empty() { "-".into() } else { cl }).unwrap();
        // tagger: rules for some surfaces of the text (substrings), with short / absent entries
        let chars: Vec<char> = text.chars().collect();
        let mut rules: Vec<String> = vec![];
        for _ in 0..r.range(0, 4) {
            let a = r.below(n);
            let b = (a + 1 + r.below(3)).min(n);
            let surf: String = chars[a..b].iter().collect();
            let nt = r.below(4);
            let tags: Vec<String> = (0..nt).map(|j| if r.chance(1, 4) { "~".into() } else { hexs(&format!("R{j}")) }).collect();
            let entry = format!("{}={}", hexs(&surf), tags.join("+"));
            if !rules.iter().any(|x| x.split('=').next() == entry.split('=').next()) {
                rules.push(entry);
            }
        }
        let rs = if rules.is_empty() { "-".to_string() } else { rules.join("/") };
        writeln!(out, "S {pre},filter:tag:{rs},obs:TYBKG c15").unwrap();
    };
    // exhaustive: all sentences of <= 4 chars over 6 symbols x all label vectors (quick: <= 3)
    let max_len = if thorough { 4 } else { 3 };
    let mut texts = vec![];
    all_strings(&['a', '\r', '\n', 'e', '\u{301}', '🇯'], max_len, &mut |s| texts.push(s.to_string()));
    for t in &texts {
        let n = t.chars().count();
        let mut labs = vec![];
        all_labels(n - 1, &mut |l| labs.push(l.to_string()));
        for l in labs {
            emit(out, &mut r, t, &l);
        }
    }
    // the sentence reaches its content through an UPDATE after it held a text of other character types (whatever the object remembers
    // about its previous content must not reach the filters): every entry point first, every update second
    {
        let contents = ["12ab", "カタ12", "漢1a字", "2021年", "aあ1ア漢.", "あいう", "777"];
        let others = ["かな", "ABC", "漢字", "1", "カ", "..", "a1"];
        for (ci, text) in contents.iter().enumerate() {
            let chars: Vec<char> = text.chars().collect();
            for round in 0..(if thorough { 12 } else { 3 }) {
                let other = others[(ci + round) % others.len()];
                let labels: Vec<char> = (0..chars.len() - 1).map(|_| *r.pick(&['W', 'W', 'N', 'U'])).collect();
                let part: String = chars.iter().enumerate().map(|(i, c)| if i == 0 { c.to_string() } else { format!("{}{c}", match labels[i - 1] { 'W' => '|', 'N' => '-', _ => ' ' }) }).collect();
                let first = match round % 3 { 0 => format!("Fraw:{}", hexs(other)), 1 => format!("Ftok:{}", hexs(other)), _ => format!("Fpart:{}", hexs(&other.chars().map(|c| c.to_string()).collect::<Vec<_>>().join("|"))) };
                let lab: String = labels.iter().collect();
                for second in [format!("part:{}", hexs(&part)), format!("raw:{},setbs:{lab}", hexs(text)), format!("tok:{},setbs:{lab}", hexs(text))] {
                    for t in 1..=6 {
                        writeln!(out, "S {first},{second},filter:ws:{t},obs:TYBKG c15").unwrap();
                    }
                    writeln!(out, "S {first},{second},filter:lb,obs:TYBKG c15").unwrap();
                    let cl = cluster_lengths(text).iter().map(|x| x.to_string()).collect::<Vec<_>>().join(".");
                    writeln!(out, "S {first},{second},filter:gc:{cl},obs:TYBKG c15").unwrap();
                }
            }
        }
    }
    // characters that HAVE a character type (not `Other`) and nevertheless continue a grapheme cluster — found by scanning the typed
    // characters with the real segmentation crate (the half-width sound marks U+FF9E/U+FF9F at present) — behind one character of each type
    {
        use unicode_segmentation::UnicodeSegmentation;
        let typed_ext: Vec<char> = (0x80u32..0x30000)
            .filter_map(char::from_u32)
            .filter(|&c| vaporetto::CharacterType::get_type(c) as u8 != 6 && format!("a{c}").graphemes(true).count() == 1)
            .collect();
        for &x in typed_ext.iter().take(if thorough { 64 } else { 16 }) {
            for lead in ['1', 'a', 'あ', 'カ', 'ｶ', '漢', '。'] {
                for (text, labs) in [(format!("{lead}{x}"), vec!["W", "U"]), (format!("{lead}{x}{lead}{x}"), vec!["WWW", "UWU"]), (format!("{x}{lead}{x}{x}"), vec!["WWW"])] {
                    for l in labs {
                        emit(out, &mut r, &text, l);
                    }
                }
            }
        }
    }
    // grapheme clusters of 255, 256, 257 and 300 code points (a letter with that many combining marks), followed by other clusters
    for &n in &[255usize, 256, 257, 300] {
        let text: String = std::iter::once('e').chain(std::iter::repeat('\u{301}').take(n - 1)).chain("a🇯🇵e\u{301}b".chars()).collect();
        let len = text.chars().count();
        for lab in ['W', 'U'] {
            let labels: String = std::iter::repeat(lab).take(len - 1).collect();
            let cl = cluster_lengths(&text).iter().map(|x| x.to_string()).collect::<Vec<_>>().join(".");
            writeln!(out, "S Fraw:{},setbs:{labels},filter:gc:{cl},obs:TYBKG c15", hexs(&text)).unwrap();
        }
    }
    // long sentences: block seams of any size (uniform character type, all boundaries set, line breaks at seams)
    for &n in &[16usize, 17, 33, 65, 129, 256, 257, 258, 400, 513, 770] {
        for (fill, brk) in [('7', None), ('a', None), ('あ', None), ('7', Some('\n')), ('カ', Some('\r'))] {
            let text: String = (0..n).map(|i| match brk { Some(b) if i % 64 == 63 || i % 64 == 0 || i == n - 1 => b, _ => fill }).collect();
            for lab in ['W', 'U', 'N'] {
                let labels: String = std::iter::repeat(lab).take(n - 1).collect();
                let pre = format!("Fraw:{},setbs:{}", hexs(&text), labels);
                let t = vaporetto::CharacterType::get_type(fill) as u8;
                writeln!(out, "S {pre},filter:ws:{t},obs:TYBKG c15").unwrap();
                writeln!(out, "S {pre},filter:lb,obs:TYBKG c15").unwrap();
                if n <= 258 {
                    let cl = cluster_lengths(&text).iter().map(|x| x.to_string()).collect::<Vec<_>>().join(".");
                    writeln!(out, "S {pre},filter:gc:{cl},obs:TYBKG c15").unwrap();
                }
            }
        }
    }
    // runs of one kind of character with lengths around the multiples of 8 (word-at-a-time and block-wise scans), directly
    // followed by an extending character, at the text start and behind a cluster of another kind
    {
        let extenders = ["\u{301}", "\u{fe0f}\u{20e3}", "\u{200d}", "\u{3099}", "\u{fe0f}", "\u{1f3fb}", "\r\n", "\n"];
        let runs: &[usize] = if thorough { &[1, 7, 8, 9, 15, 16, 17, 24, 31, 32, 33, 64] } else { &[7, 8, 9, 16, 24] };
        let mut k = 0usize;
        for &len in runs {
            for fill in ["a", "7", "あ", "e\u{301}"] {
                for prefix in ["", "漢", "👨\u{200d}👩", "\r"] {
                    k += 1;
                    if !thorough && fill != "a" && k % 3 != 0 {
                        continue;
                    }
                    let ext = extenders[k % extenders.len()];
                    let text = format!("{prefix}{}{ext}b", fill.repeat(len));
                    let n = text.chars().count();
                    let labels: String = std::iter::repeat(['W', 'U', 'N'][k % 3]).take(n - 1).collect();
                    let pre = format!("Fraw:{},setbs:{}", hexs(&text), labels);
                    let cl = cluster_lengths(&text).iter().map(|x| x.to_string()).collect::<Vec<_>>().join(".");
                    writeln!(out, "S {pre},filter:gc:{cl},obs:TYBKG c15").unwrap();
                    writeln!(out, "S {pre},filter:lb,obs:TYBKG c15").unwrap();
                    writeln!(out, "S {pre},filter:ws:{},obs:TYBKG c15", 1 + k % 6).unwrap();
                }
            }
        }
    }
    let count = if thorough { 60000 } else { 1200 };
    for _ in 0..count {
        let text = grapheme_text(&mut r, 8);
        let n = text.chars().count();
        let labels = rand_labels(&mut r, n - 1, &['N', 'W', 'U']);
        emit(out, &mut r, &text, &labels);
    }
}
