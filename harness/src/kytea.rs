//! C17: KyTea model files.
//!
//! Abstract description (one token, no spaces), fields separated by `;`:
//!   K<char_w>.<char_n>.<type_w>.<type_n>.<dict_n>.<n_tags>.<n_dicts>
//!   map=<hex of the character map string>          (characters are referred to by 1-based index into it)
//!   bias=<i16>
//!   c<hex ngram>=<i16,i16,…>                        character n-gram with its weight vector (as stored in the file)
//!   t<letters>=<i16,…>                              type n-gram over the letters D R H T K O and `4` (= byte 0x04)
//!   dv=<i16,…>                                      dict_vec (3 · dict_n · n_dicts entries when well-formed)
//!   d<hex word>=<in_dict mask>                      dictionary word with its membership mask
//! Cases:
//!   KYE <abs>              -> hex of the file the harness's encoder produces (compared with the model's encoder)
//!   KY  <abs> <k|full>     -> conversion result of the first k bytes (or the whole file):
//!                             `ok:<hex of converted Model::to_vec()>` | `err:<kind>` | `panic`
//!   KYX <hex file> <k|full>-> the same on raw bytes (resources/kytea-model.bin)
use std::collections::BTreeMap;
use std::convert::TryFrom;

use vaporetto::{errors::VaporettoError, KyteaModel, Model};

use crate::model::AbsModel;
use crate::util::{catch, hex, hexs, unhex, unhexs, Rng};

#[derive(Clone, Debug, Default)]
pub struct AbsKytea {
    pub char_w: u8,
    pub char_n: u8,
    pub type_w: u8,
    pub type_n: u8,
    pub dict_n: u8,
    pub n_tags: u32,
    pub n_dicts: u8,
    pub char_map: String,
    pub bias: i16,
    pub char_ngrams: Vec<(String, Vec<i16>)>,
    pub type_ngrams: Vec<(String, Vec<i16>)>,
    pub dict_vec: Vec<i16>,
    pub words: Vec<(String, u8)>,
    /// not part of the textual description: when non-zero, the encoder fills the parts of the file that the conversion
    /// reads and ignores (tag models, global tags, self/subword dictionaries, tag vectors) with content derived from it
    pub junk: u64,
}

fn ints(v: &[i16]) -> String {
    v.iter().map(|x| x.to_string()).collect::<Vec<_>>().join(",")
}

fn parse_ints(s: &str) -> Option<Vec<i16>> {
    if s.is_empty() {
        return Some(vec![]);
    }
    s.split(',').map(|x| x.parse().ok()).collect()
}

impl AbsKytea {
    pub fn to_text(&self) -> String {
        let mut s = format!(
            "K{}.{}.{}.{}.{}.{}.{};map={};bias={}",
            self.char_w,
            self.char_n,
            self.type_w,
            self.type_n,
            self.dict_n,
            self.n_tags,
            self.n_dicts,
            hexs(&self.char_map),
            self.bias
        );
        for (g, w) in &self.char_ngrams {
            s.push_str(&format!(";c{}={}", hexs(g), ints(w)));
        }
        for (g, w) in &self.type_ngrams {
            s.push_str(&format!(";t{}={}", g, ints(w)));
        }
        s.push_str(&format!(";dv={}", ints(&self.dict_vec)));
        for (w, m) in &self.words {
            s.push_str(&format!(";d{}={}", hexs(w), m));
        }
        s
    }

    pub fn parse(s: &str) -> Option<AbsKytea> {
        let mut it = s.split(';');
        let h: Vec<&str> = it.next()?.strip_prefix('K')?.split('.').collect();
        if h.len() != 7 {
            return None;
        }
        let mut k = AbsKytea {
            char_w: h[0].parse().ok()?,
            char_n: h[1].parse().ok()?,
            type_w: h[2].parse().ok()?,
            type_n: h[3].parse().ok()?,
            dict_n: h[4].parse().ok()?,
            n_tags: h[5].parse().ok()?,
            n_dicts: h[6].parse().ok()?,
            ..Default::default()
        };
        for f in it {
            if let Some(x) = f.strip_prefix("map=") {
                k.char_map = unhexs(x)?;
            } else if let Some(x) = f.strip_prefix("bias=") {
                k.bias = x.parse().ok()?;
            } else if let Some(x) = f.strip_prefix("dv=") {
                k.dict_vec = parse_ints(x)?;
            } else if let Some(x) = f.strip_prefix('c') {
                let (g, w) = x.split_once('=')?;
                k.char_ngrams.push((unhexs(g)?, parse_ints(w)?));
            } else if let Some(x) = f.strip_prefix('t') {
                let (g, w) = x.split_once('=')?;
                k.type_ngrams.push((g.to_string(), parse_ints(w)?));
            } else if let Some(x) = f.strip_prefix('d') {
                let (g, m) = x.split_once('=')?;
                k.words.push((unhexs(g)?, m.parse().ok()?));
            } else {
                return None;
            }
        }
        Some(k)
    }

    fn cidx(&self, c: char) -> u16 {
        (self.char_map.chars().position(|x| x == c).expect("character not in the map") + 1) as u16
    }

    fn put_str(&self, out: &mut Vec<u8>, s: &str) {
        out.extend((s.chars().count() as u32).to_le_bytes());
        for c in s.chars() {
            out.extend(self.cidx(c).to_le_bytes());
        }
    }

    /// a trie over the keys: states in pre-order (children by ascending character), one entry per key
    fn put_dictionary(&self, out: &mut Vec<u8>, n_dicts: u8, keys: &[String], put_entry: impl FnMut(&mut Vec<u8>, usize)) {
        self.put_dictionary_ac(out, n_dicts, keys, false, put_entry)
    }

    /// `inherit`: as in files written by KyTea itself, a state's output list also carries the entries of the proper
    /// suffixes of its string that are keys (after its own entry, longest first), and failure links are filled in;
    /// the conversion must list a state as an item only when it is a branch (its own entry), never for inherited outputs
    fn put_dictionary_ac(&self, out: &mut Vec<u8>, n_dicts: u8, keys: &[String], inherit: bool, mut put_entry: impl FnMut(&mut Vec<u8>, usize)) {
        out.push(n_dicts);
        if keys.is_empty() {
            out.extend(0u32.to_le_bytes());
            return;
        }
        // build the trie
        #[derive(Default)]
        struct Node {
            children: BTreeMap<char, usize>,
            entry: Option<usize>,
            text: Vec<char>,
        }
        let mut nodes = vec![Node::default()];
        for (ei, k) in keys.iter().enumerate() {
            let mut cur = 0;
            for c in k.chars() {
                let next = match nodes[cur].children.get(&c) {
                    Some(&n) => n,
                    None => {
                        let mut text = nodes[cur].text.clone();
                        text.push(c);
                        nodes.push(Node { text, ..Default::default() });
                        let n = nodes.len() - 1;
                        nodes[cur].children.insert(c, n);
                        n
                    }
                };
                cur = next;
            }
            nodes[cur].entry = Some(ei);
        }
        out.extend((nodes.len() as u32).to_le_bytes());
        let key_chars: Vec<Vec<char>> = keys.iter().map(|k| k.chars().collect()).collect();
        // in files with content in the ignored parts the states are also stored in another order than they were created in
        // (a child may come before its parent; the root stays state 0): the reader must follow the stored indices
        let n_nodes = nodes.len();
        let mut order: Vec<usize> = (0..n_nodes).collect();
        if inherit && n_nodes > 2 {
            let mut x = self.junk ^ (n_nodes as u64).wrapping_mul(0x9E3779B97F4A7C15);
            for i in (2..n_nodes).rev() {
                x ^= x << 13;
                x ^= x >> 7;
                x ^= x << 17;
                let j = 1 + (x as usize) % i;
                order.swap(i, j);
            }
        }
        let mut new_index = vec![0usize; n_nodes];
        for (pos, &old) in order.iter().enumerate() {
            new_index[old] = pos;
        }
        let texts: Vec<Vec<char>> = nodes.iter().map(|n| n.text.clone()).collect();
        for &oi in &order {
            let node = &nodes[oi];
            // inherited outputs and failure link (longest proper suffix that is a state)
            let mut inherited: Vec<u32> = vec![];
            let mut failure = 0u32;
            if inherit {
                for start in 1..node.text.len() {
                    let suf = &node.text[start..];
                    if failure == 0 {
                        if let Some(i) = texts.iter().position(|t| t.as_slice() == suf) {
                            failure = new_index[i] as u32;
                        }
                    }
                    if let Some(e) = key_chars.iter().position(|k| k.as_slice() == suf) {
                        inherited.push(e as u32);
                    }
                }
            }
            if inherit {
                out.extend(failure.to_le_bytes());
                out.extend((node.children.len() as u32).to_le_bytes());
                for (c, n) in node.children.iter().rev() {
                    out.extend(self.cidx(*c).to_le_bytes());
                    out.extend((new_index[*n] as u32).to_le_bytes());
                }
                let own: Vec<u32> = node.entry.iter().map(|&e| e as u32).collect();
                out.extend(((own.len() + inherited.len()) as u32).to_le_bytes());
                for e in own.iter().chain(inherited.iter()) {
                    out.extend(e.to_le_bytes());
                }
                out.push(node.entry.is_some() as u8);
                continue;
            }
            out.extend(0u32.to_le_bytes()); // failure
            out.extend((node.children.len() as u32).to_le_bytes());
            // gotos are written in DESCENDING order on purpose: the reader sorts them
            for (c, n) in node.children.iter().rev() {
                out.extend(self.cidx(*c).to_le_bytes());
                out.extend((*n as u32).to_le_bytes());
            }
            match node.entry {
                Some(e) => {
                    out.extend(1u32.to_le_bytes());
                    out.extend((e as u32).to_le_bytes());
                    out.push(1);
                }
                None => {
                    out.extend(0u32.to_le_bytes());
                    out.push(0);
                }
            }
        }
        out.extend((keys.len() as u32).to_le_bytes());
        for i in 0..keys.len() {
            put_entry(out, i);
        }
    }

    fn put_i16s(out: &mut Vec<u8>, v: &[i16]) {
        out.extend((v.len() as u32).to_le_bytes());
        for x in v {
            out.extend(x.to_le_bytes());
        }
    }

    fn junk_word(&self, jr: &mut Rng) -> String {
        let cs: Vec<char> = self.char_map.chars().collect();
        (0..jr.range(1, 3)).map(|_| *jr.pick(&cs)).collect()
    }

    fn junk_keys(&self, jr: &mut Rng, max: i64) -> Vec<String> {
        let mut keys: Vec<String> = vec![];
        for _ in 0..jr.range(1, max) {
            let w = self.junk_word(jr);
            if !keys.contains(&w) {
                keys.push(w);
            }
        }
        keys
    }

    /// an `Option<LinearModel>` that the conversion reads and ignores
    fn put_junk_linear(&self, out: &mut Vec<u8>, jr: &mut Rng) {
        let n_classes = jr.below(4) as u32;
        out.extend(n_classes.to_le_bytes());
        if n_classes == 0 {
            return;
        }
        out.push(jr.below(8) as u8); // solver type
        for _ in 0..n_classes {
            out.extend((jr.range(-3, 3) as i32).to_le_bytes());
        }
        out.push(jr.below(2) as u8); // bias
        out.extend((jr.range(1, 1000) as f64 / 7.0).to_le_bytes()); // multiplier
        if jr.chance(1, 2) {
            out.push(0); // feature lookup inactive
            return;
        }
        out.push(1);
        for _ in 0..3 {
            if jr.chance(1, 2) {
                self.put_dictionary(out, 0, &[], |_, _| {});
            } else {
                let keys = self.junk_keys(jr, 3);
                let vals: Vec<Vec<i16>> = keys.iter().map(|_| (0..jr.below(4)).map(|_| jr.range(-9, 9) as i16).collect()).collect();
                self.put_dictionary(out, jr.below(3) as u8, &keys, |o, i| Self::put_i16s(o, &vals[i]));
            }
        }
        for _ in 0..4 {
            let v: Vec<i16> = (0..jr.below(4)).map(|_| jr.range(-9, 9) as i16).collect();
            Self::put_i16s(out, &v);
        }
    }

    /// the KyTea binary model file for this description
    pub fn encode(&self) -> Vec<u8> {
        let j = self.junk != 0;
        let mut jr = Rng::new(self.junk);
        let mut out = vec![];
        out.extend(b"KyTea 0.4.7 B UTF-8\n"); // model tag line
        out.push(1); // do_ws
        out.push(if j { jr.below(2) as u8 } else { 0 }); // do_tags
        out.extend(self.n_tags.to_le_bytes());
        out.extend([self.char_w, self.char_n, self.type_w, self.type_n, self.dict_n]);
        out.push(1); // bias
        out.extend(0.0001f64.to_le_bytes()); // epsilon
        out.push(1); // solver type
        out.extend(self.char_map.as_bytes());
        out.push(0);
        // word segmentation model
        out.extend(2u32.to_le_bytes()); // n_classes
        out.push(1); // solver type
        out.extend(1i32.to_le_bytes());
        out.extend((-1i32).to_le_bytes());
        out.push(1); // bias
        out.extend(1.0f64.to_le_bytes()); // multiplier
        out.push(1); // feature lookup active
        let ckeys: Vec<String> = self.char_ngrams.iter().map(|x| x.0.clone()).collect();
        self.put_dictionary_ac(&mut out, 0, &ckeys, j, |o, i| Self::put_i16s(o, &self.char_ngrams[i].1));
        let tkeys: Vec<String> = self.type_ngrams.iter().map(|x| x.0.replace('4', "\u{4}")).collect();
        self.put_dictionary_ac(&mut out, 0, &tkeys, j, |o, i| Self::put_i16s(o, &self.type_ngrams[i].1));
        if j && jr.chance(2, 3) {
            // self dictionary with entries (read and ignored)
            let keys = self.junk_keys(&mut jr, 4);
            let vals: Vec<Vec<i16>> = keys.iter().map(|_| (0..jr.below(5)).map(|_| jr.range(-99, 99) as i16).collect()).collect();
            self.put_dictionary(&mut out, jr.below(3) as u8, &keys, |o, i| Self::put_i16s(o, &vals[i]));
        } else {
            self.put_dictionary(&mut out, 0, &[], |_, _| {}); // self dictionary: absent
        }
        Self::put_i16s(&mut out, &self.dict_vec);
        if j && jr.chance(1, 2) {
            // further biases after the first are ignored
            let more: Vec<i16> = std::iter::once(self.bias).chain((0..jr.range(1, 3)).map(|_| jr.range(-99, 99) as i16)).collect();
            Self::put_i16s(&mut out, &more);
        } else {
            Self::put_i16s(&mut out, &[self.bias]);
        }
        for _ in 0..2 {
            // tag_dict_vec, tag_unk_vec
            let v: Vec<i16> = if j { (0..jr.below(5)).map(|_| jr.range(-99, 99) as i16).collect() } else { vec![] };
            Self::put_i16s(&mut out, &v);
        }
        // global tags / models
        for _ in 0..self.n_tags {
            if j {
                let tags: Vec<String> = (0..jr.below(3)).map(|_| self.junk_word(&mut jr)).collect();
                out.extend((tags.len() as u32).to_le_bytes());
                for t in &tags {
                    self.put_str(&mut out, t);
                }
                self.put_junk_linear(&mut out, &mut jr);
            } else {
                out.extend(0u32.to_le_bytes()); // Vec<String> global tags
                out.extend(0u32.to_le_bytes()); // no model (n_classes = 0)
            }
        }
        // dictionary of ModelTagEntry
        let wkeys: Vec<String> = self.words.iter().map(|x| x.0.clone()).collect();
        let mut entries: Vec<Vec<u8>> = vec![];
        for i in 0..self.words.len() {
            let mut o = vec![];
            self.put_str(&mut o, &self.words[i].0);
            for t in 0..self.n_tags {
                if j {
                    let n = jr.below(3);
                    o.extend((n as u32).to_le_bytes());
                    for _ in 0..n {
                        let w = self.junk_word(&mut jr);
                        self.put_str(&mut o, &w);
                        o.push(jr.below(256) as u8);
                    }
                } else if t == 0 {
                    // one tag with an in-dictionary flag for the first slot, none otherwise
                    o.extend(1u32.to_le_bytes());
                    self.put_str(&mut o, &self.words[i].0);
                    o.push(1);
                } else {
                    o.extend(0u32.to_le_bytes());
                }
            }
            o.push(self.words[i].1);
            for _ in 0..self.n_tags {
                if j {
                    self.put_junk_linear(&mut o, &mut jr);
                } else {
                    o.extend(0u32.to_le_bytes()); // no tag model
                }
            }
            entries.push(o);
        }
        self.put_dictionary_ac(&mut out, self.n_dicts, &wkeys, j, |o, i| o.extend(&entries[i]));
        if j && jr.chance(2, 3) {
            // subword dictionary of ProbTagEntry (read and ignored)
            let keys = self.junk_keys(&mut jr, 4);
            let mut es: Vec<Vec<u8>> = vec![];
            for k in &keys {
                let mut o = vec![];
                self.put_str(&mut o, k);
                for _ in 0..self.n_tags {
                    let n = jr.below(3);
                    o.extend((n as u32).to_le_bytes());
                    for _ in 0..n {
                        let w = self.junk_word(&mut jr);
                        self.put_str(&mut o, &w);
                        o.extend((jr.range(0, 1000) as f64 / 1000.0).to_le_bytes());
                    }
                }
                es.push(o);
            }
            self.put_dictionary(&mut out, jr.below(3) as u8, &keys, |o, i| o.extend(&es[i]));
        } else {
            self.put_dictionary(&mut out, 0, &[], |_, _| {}); // subword dictionary: absent
        }
        out
    }

    /// the model the file encodes, as the property states it
    pub fn expected(&self) -> Result<AbsModel, String> {
        let mut m = AbsModel { char_w: self.char_w, type_w: self.type_w, bias: self.bias as i32, ..Default::default() };
        let mut cg: Vec<&(String, Vec<i16>)> = self.char_ngrams.iter().collect();
        cg.sort_by(|a, b| a.0.chars().cmp(b.0.chars()));
        for (g, w) in cg {
            let l = g.chars().count();
            let size = (2 * self.char_w as usize + 1).checked_sub(l).ok_or("n-gram longer than the window")?;
            if w.len() < size {
                return Err("weight vector shorter than the window".into());
            }
            m.char_ngrams.push((g.clone(), w[..size].iter().map(|&x| x as i32).collect()));
        }
        let mut tg: Vec<&(String, Vec<i16>)> = self.type_ngrams.iter().collect();
        tg.sort_by(|a, b| a.0.replace('4', "\u{4}").cmp(&b.0.replace('4', "\u{4}")));
        for (g, w) in tg {
            // the conversion maps the UTF-8 bytes of the n-gram one by one: byte 4 skips the n-gram (the documented
            // workaround), any other byte outside D R H T K O is rejected
            let mut skip = false;
            for b in g.replace('4', "\u{4}").bytes() {
                if b == 4 {
                    skip = true;
                    break;
                }
                if !b"DRHTKO".contains(&b) {
                    return Err("REJECT".into());
                }
            }
            if skip {
                continue;
            }
            let l = g.chars().count();
            let size = (2 * self.type_w as usize + 1).checked_sub(l).ok_or("n-gram longer than the window")?;
            if w.len() < size {
                return Err("weight vector shorter than the window".into());
            }
            let codes: Vec<u8> = g
                .chars()
                .map(|c| match c {
                    'D' => 1,
                    'R' => 2,
                    'H' => 3,
                    'T' => 4,
                    'K' => 5,
                    _ => 6,
                })
                .collect();
            m.type_ngrams.push((codes, w[..size].iter().map(|&x| x as i32).collect()));
        }
        let mut ws: Vec<&(String, u8)> = self.words.iter().collect();
        ws.sort_by(|a, b| a.0.chars().cmp(b.0.chars()));
        for (w, mask) in ws {
            let l = w.chars().count();
            let idx = l.min(self.dict_n as usize).checked_sub(1).ok_or("dict_n = 0")?;
            let (mut left, mut inside, mut right) = (0i32, 0i32, 0i32);
            for j in 0..self.n_dicts as usize {
                if (mask >> j) & 1 == 1 {
                    let off = 3 * self.dict_n as usize * j + 3 * idx;
                    left += *self.dict_vec.get(off).ok_or("dict_vec too short")? as i32;
                    inside += *self.dict_vec.get(off + 1).ok_or("dict_vec too short")? as i32;
                    right += *self.dict_vec.get(off + 2).ok_or("dict_vec too short")? as i32;
                }
            }
            let mut v = vec![inside; l + 1];
            v[0] = left;
            v[l] = right;
            m.dict.push((w.clone(), v, String::new()));
        }
        Ok(m)
    }
}

fn kind(e: &VaporettoError) -> &'static str {
    match e {
        VaporettoError::InvalidModel(_) => "invalid_model",
        VaporettoError::InvalidArgument(_) => "invalid_argument",
        VaporettoError::UTF8Error(_) => "utf8",
        VaporettoError::CastError(_) => "cast",
        VaporettoError::DecodeError(_) => "decode",
        VaporettoError::EncodeError(_) => "encode",
        VaporettoError::IOError(_) => "io",
    }
}

/// hands out at most `1` bytes per call (readers must cope with short reads)
struct ShortReads<'a>(&'a [u8], usize);

impl std::io::Read for ShortReads<'_> {
    fn read(&mut self, buf: &mut [u8]) -> std::io::Result<usize> {
        let n = buf.len().min(self.0.len()).min(self.1);
        buf[..n].copy_from_slice(&self.0[..n]);
        self.0 = &self.0[n..];
        Ok(n)
    }
}

fn convert_with<R: std::io::BufRead>(rdr: R) -> String {
    match catch(|| {
        let km = KyteaModel::read(rdr)?;
        let m = Model::try_from(km)?;
        m.to_vec()
    }) {
        Ok(Ok(v)) => format!("ok:{}", hex(&v)),
        Ok(Err(e)) => format!("err:{}", kind(&e)),
        Err(_) => "panic".into(),
    }
}

fn convert(bytes: &[u8]) -> String {
    convert_with(&mut &bytes[..])
}

/// the same file through buffered readers whose refills fall at every kind of offset: a 16-byte and a 7-byte buffer over
/// short reads (what `BufReader<File>` does to a real, large model every 8 KiB)
fn convert_chunked(bytes: &[u8]) -> Vec<String> {
    [16usize, 7].iter().map(|&cap| convert_with(std::io::BufReader::with_capacity(cap, ShortReads(bytes, 5)))).collect()
}

/// a whole file through every combination of small buffer capacities and short reads: multi-byte fields (weights, counts,
/// floats) get split at one refill, at two consecutive refills, after a carried byte, ...
fn convert_chunked_matrix(bytes: &[u8]) -> Vec<(String, String)> {
    let mut v = vec![];
    for cap in [1usize, 2, 3, 4, 5, 6, 7, 8, 9, 11, 13, 16, 17, 31, 32, 33, 40, 64] {
        for per_read in [1usize, 2, 3, 5, 8, 64] {
            if per_read > cap && per_read != 64 {
                continue;
            }
            v.push((format!("BufReader capacity {cap}, at most {per_read} bytes per read"), convert_with(std::io::BufReader::with_capacity(cap, ShortReads(bytes, per_read)))));
        }
    }
    v
}

pub fn run(toks: &[&str], fails: &mut Vec<(String, String)>) -> String {
    let c17 = toks.last() == Some(&"c17");
    match toks {
        ["KYE", a, ..] => {
            let Some(k) = AbsKytea::parse(a) else { return "bad-case".into() };
            hex(&k.encode())
        }
        ["KY", a, cut, ..] => {
            let Some(k) = AbsKytea::parse(a) else { return "bad-case".into() };
            let full = k.encode();
            let n = if *cut == "full" { full.len() } else { cut.parse::<usize>().unwrap_or(0).min(full.len()) };
            let r = convert(&full[..n]);
            if c17 {
                for (k, alt) in convert_chunked(&full[..n]).into_iter().enumerate() {
                    if alt != r && !(alt.starts_with("err:") && r.starts_with("err:")) {
                        fails.push(("C17".into(), format!("the file read through a small buffered reader (variant {k}) converts to {}, read from a slice to {}", &alt[..alt.len().min(60)], &r[..r.len().min(60)])));
                    }
                }
                if n == full.len() {
                    for (what, alt) in convert_chunked_matrix(&full) {
                        if alt != r {
                            fails.push(("C17".into(), format!("the file read through a small buffered reader ({what}) converts to {}, read from a slice to {}", &alt[..alt.len().min(60)], &r[..r.len().min(60)])));
                            break;
                        }
                    }
                    match k.expected() {
                        Ok(exp) => {
                            let want = format!("ok:{}", hex(&exp.to_bytes()));
                            if r != want {
                                let got = r.strip_prefix("ok:").and_then(unhex).and_then(|b| AbsModel::from_bytes(&b)).map(|m| m.to_text());
                                fails.push(("C17".into(), format!("the converted model is {:?}, the file encodes {}", got.unwrap_or(r.clone()), exp.to_text())));
                            }
                        }
                        Err(e) if e == "REJECT" => {
                            if r != "err:invalid_model" {
                                fails.push(("C17".into(), format!("a type n-gram with an unsupported character-type letter was not rejected as an invalid model: {}", &r[..r.len().min(60)])));
                            }
                        }
                        Err(_) => {} // the description is not a well-formed KyTea model: nothing is claimed
                    }
                } else if k.expected().is_ok() && !r.starts_with("err:") {
                    fails.push(("C17".into(), format!("the first {n} of {} bytes of a KyTea model gave {}", full.len(), &r[..r.len().min(40)])));
                }
            }
            r
        }
        ["KYX", h, cut, ..] => {
            let Some(full) = unhex(h) else { return "bad-case".into() };
            let n = if *cut == "full" { full.len() } else { cut.parse::<usize>().unwrap_or(0).min(full.len()) };
            let r = convert(&full[..n]);
            if c17 {
                for (k, alt) in convert_chunked(&full[..n]).into_iter().enumerate() {
                    if alt != r && !(alt.starts_with("err:") && r.starts_with("err:")) {
                        fails.push(("C17".into(), format!("the file read through a small buffered reader (variant {k}) converts to {}, read from a slice to {}", &alt[..alt.len().min(60)], &r[..r.len().min(60)])));
                    }
                }
            }
            if c17 && n == full.len() && r.starts_with("ok:") {
                for (what, alt) in convert_chunked_matrix(&full) {
                    if alt != r {
                        fails.push(("C17".into(), format!("the file read through a small buffered reader ({what}) converts to {}, read from a slice to {}", &alt[..alt.len().min(60)], &r[..r.len().min(60)])));
                        break;
                    }
                }
            }
            // optional expected result (files whose ignored parts carry content): KYX <hex> full <expected> c17
            if let (true, [_, _, _, exp, _]) = (c17 && n == full.len(), toks) {
                if *exp != "-" && r != *exp {
                    let got = r.strip_prefix("ok:").and_then(unhex).and_then(|b| AbsModel::from_bytes(&b)).map(|m| m.to_text());
                    let want = exp.strip_prefix("ok:").and_then(unhex).and_then(|b| AbsModel::from_bytes(&b)).map(|m| m.to_text());
                    fails.push(("C17".into(), format!("the converted model is {:?}, the file encodes {:?}", got.unwrap_or(r.clone()), want.unwrap_or(exp.to_string()))));
                }
            }
            if c17 && n < full.len().saturating_sub(8) && !r.starts_with("err:") {
                fails.push(("C17".into(), format!("the first {n} of {} bytes of the KyTea model file gave {}", full.len(), &r[..r.len().min(40)])));
            }
            r
        }
        _ => "bad-case".into(),
    }
}

pub fn gen(out: &mut dyn std::io::Write, thorough: bool, seed: u64) {
    let mut r = Rng::new(seed ^ 0xC17);
    // the file shipped with the repository: whole and every truncation point
    if let Ok(bytes) = std::fs::read("/repo/resources/kytea-model.bin") {
        writeln!(out, "KYX {} full c17", hex(&bytes)).unwrap();
        let step = if thorough { 1 } else { 5 };
        for k in (0..bytes.len()).step_by(step) {
            writeln!(out, "KYX {} {k} c17", hex(&bytes)).unwrap();
        }
    }
    let n_models = if thorough { 250 } else { 40 };
    let chars = ['a', 'b', 'あ', '漢', 'カ', '1', 'D', 'R', 'H', 'T', 'K', 'O', '\u{4}'];
    for mi in 0..n_models {
        let mut k = AbsKytea {
            char_w: r.range(1, 3) as u8,
            char_n: 3,
            type_w: r.range(1, 3) as u8,
            type_n: 3,
            dict_n: r.range(1, 4) as u8,
            n_tags: r.below(4) as u32,
            n_dicts: r.below(9) as u8,
            char_map: chars.iter().collect(),
            bias: r.range(-300, 300) as i16,
            ..Default::default()
        };
        let word = |r: &mut Rng, max: usize| -> String { (0..r.range(1, max as i64)).map(|_| *r.pick(&chars[..6])).collect() };
        for _ in 0..r.range(1, 30) {
            let g = word(&mut r, 2 * k.char_w as usize);
            if k.char_ngrams.iter().any(|x| x.0 == g) {
                continue;
            }
            // the stored vector may be longer than the window needs (KyTea stores 2·w entries)
            let n = 2 * k.char_w as usize + 1 - g.chars().count() + r.below(2);
            k.char_ngrams.push((g, (0..n).map(|_| r.range(-500, 500) as i16).collect()));
        }
        for _ in 0..r.range(1, 12) {
            let l = r.range(1, 2 * k.type_w as i64) as usize;
            let bad = r.chance(1, 12);
            let g: String = (0..l).map(|_| if r.chance(1, 25) { '4' } else if bad && r.chance(1, 3) { *r.pick(&['a', 'あ', '1']) } else { *r.pick(&['D', 'R', 'H', 'T', 'K', 'O']) }).collect();
            if k.type_ngrams.iter().any(|x| x.0 == g) {
                continue;
            }
            let n = 2 * k.type_w as usize + 1 - l + r.below(2);
            k.type_ngrams.push((g, (0..n).map(|_| r.range(-500, 500) as i16).collect()));
        }
        k.dict_vec = (0..3 * k.dict_n as usize * k.n_dicts as usize).map(|_| r.range(-200, 200) as i16).collect();
        if k.n_dicts > 0 {
            for _ in 0..r.range(0, 8) {
                let w = word(&mut r, 5);
                if k.words.iter().any(|x| x.0 == w) {
                    continue;
                }
                let mask = (r.below(256) as u8) & (((1u16 << k.n_dicts) - 1) as u8);
                k.words.push((w, mask));
            }
        }
        let text = k.to_text();
        writeln!(out, "KYE {text} c17").unwrap();
        writeln!(out, "KY {text} full c17").unwrap();
        let len = k.encode().len();
        let step = if thorough { 1 } else { (len / 60).max(1) };
        for cut in (0..len).step_by(step) {
            writeln!(out, "KY {text} {cut} c17").unwrap();
        }
        // the same model in a file whose ignored parts (tag models, global tags, self/subword dictionaries, tag vectors)
        // carry content: the conversion must read past them and give the same result
        for _ in 0..2 {
            k.junk = r.next() | 1;
            let bytes = k.encode();
            let exp = match k.expected() {
                Ok(m) => format!("ok:{}", hex(&m.to_bytes())),
                Err(e) if e == "REJECT" => "err:invalid_model".to_string(),
                Err(_) => "-".to_string(),
            };
            writeln!(out, "KYX {} full {exp} c17", hex(&bytes)).unwrap();
            // every truncation point for the first 10 models of the thorough tier, a sample otherwise (each line carries the file)
            let step = if thorough && mi < 10 { 1 } else { (bytes.len() / 40).max(1) };
            for cut in (0..bytes.len()).step_by(step) {
                writeln!(out, "KYX {} {cut} c17", hex(&bytes)).unwrap();
            }
        }
    }
}

/// extra step: the real `convert_kytea_model` tool on generated KyTea files (whole and truncated) against the library
/// conversion and against the model the file encodes
pub fn cli_convert(thorough: bool, seed: u64) {
    let mut r = Rng::new(seed ^ 0xC17C);
    let dir = crate::cli::scratch_dir("c17");
    let mut files: Vec<(String, Vec<u8>, Option<Vec<u8>>)> = vec![];
    if let Ok(bytes) = std::fs::read("/repo/resources/kytea-model.bin") {
        files.push(("resources/kytea-model.bin".into(), bytes, None));
    }
    let mut buf: Vec<u8> = vec![];
    gen(&mut buf, false, seed ^ 0x55);
    let descs: Vec<String> = String::from_utf8_lossy(&buf).lines().filter(|l| l.starts_with("KYE ")).map(|l| l.split(' ').nth(1).unwrap_or("").to_string()).collect();
    let n = if thorough { descs.len() } else { descs.len().min(16) };
    for d in descs.iter().take(n) {
        if let Some(mut k) = AbsKytea::parse(d) {
            if r.chance(1, 2) {
                k.junk = r.next() | 1;
            }
            let exp = k.expected().ok().map(|m| m.to_bytes());
            files.push((d.chars().take(120).collect(), k.encode(), exp));
        }
    }
    let mut fails = 0;
    let s = |p: &std::path::Path| p.display().to_string();
    for (i, (name, bytes, exp)) in files.iter().enumerate() {
        let (ip, op) = (dir.join("in.bin"), dir.join("out.zst"));
        for cut in [bytes.len(), r.below(bytes.len().max(1))] {
            let _ = std::fs::remove_file(&op);
            std::fs::write(&ip, &bytes[..cut]).unwrap();
            let o = crate::cli::run_tool("convert_kytea_model", &["--model-in".into(), s(&ip), "--model-out".into(), s(&op)], b"");
            let lib = convert(&bytes[..cut]);
            let got = crate::cli::read_zst(&op);
            let ok = match lib.strip_prefix("ok:").and_then(unhex) {
                Some(want) => o.code == Some(0) && got.as_deref() == Some(&want[..]) && (cut < bytes.len() || exp.as_ref().map_or(true, |e| *e == want)),
                None => o.code != Some(0) && !o.stderr.contains("panicked"),
            };
            if !ok {
                fails += 1;
                println!(
                    "FAIL case={i} file={name} first_bytes={cut}/{} tool_exit={:?} library={} output_matches_library={} stderr={}",
                    bytes.len(),
                    o.code,
                    &lib[..lib.len().min(24)],
                    lib.strip_prefix("ok:").and_then(unhex).map_or(false, |w| got.as_deref() == Some(&w[..])),
                    o.stderr.lines().last().unwrap_or("").chars().take(160).collect::<String>()
                );
            }
        }
    }
    let _ = std::fs::remove_dir_all(&dir);
    println!("cli_convert files={} failures={fails}", files.len());
}
