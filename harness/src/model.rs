//! Abstract models: text form used in case lines, bincode mirror structs (so every model reaches the real
//! code through the public `Model::read_slice`), brute-force specification of the scores, generators.
use bincode::{Decode, Encode};

use crate::util::{hexs, unhexs, Rng};

pub const MODEL_MAGIC: &[u8] = b"VaporettoTokenizer 0.5.0\n";

#[derive(Clone, Debug, Default)]
pub struct TagNgram<K> {
    pub ngram: K,
    pub weights: Vec<(u8, Vec<i32>)>,
}

#[derive(Clone, Debug, Default)]
pub struct AbsTagModel {
    pub token: String,
    pub tags: Vec<Vec<String>>,
    pub char_ngrams: Vec<TagNgram<String>>,
    pub type_ngrams: Vec<TagNgram<Vec<u8>>>,
    pub bias: Vec<i32>,
}

#[derive(Clone, Debug, Default)]
pub struct AbsModel {
    pub char_w: u8,
    pub type_w: u8,
    pub bias: i32,
    pub char_ngrams: Vec<(String, Vec<i32>)>,
    pub type_ngrams: Vec<(Vec<u8>, Vec<i32>)>,
    pub dict: Vec<(String, Vec<i32>, String)>,
    pub tag_models: Vec<AbsTagModel>,
}

fn ints(ws: &[i32]) -> String {
    ws.iter().map(|x| x.to_string()).collect::<Vec<_>>().join(",")
}

fn parse_ints(s: &str) -> Option<Vec<i32>> {
    if s.is_empty() {
        return Some(vec![]);
    }
    s.split(',').map(|x| x.parse().ok()).collect()
}

fn digits(ts: &[u8]) -> String {
    if ts.is_empty() {
        "-".into()
    } else {
        ts.iter().map(|t| char::from(b'0' + t)).collect()
    }
}

fn parse_digits(s: &str) -> Option<Vec<u8>> {
    if s == "-" {
        return Some(vec![]);
    }
    s.bytes().map(|b| if b.is_ascii_digit() { Some(b - b'0') } else { None }).collect()
}

impl AbsModel {
    pub fn to_text(&self) -> String {
        let mut s = format!("M{}.{}.{}", self.char_w, self.type_w, self.bias);
        for (k, w) in &self.char_ngrams {
            s.push_str(&format!(";c{}={}", hexs(k), ints(w)));
        }
        for (k, w) in &self.type_ngrams {
            s.push_str(&format!(";t{}={}", digits(k), ints(w)));
        }
        for (k, w, c) in &self.dict {
            if c.is_empty() {
                s.push_str(&format!(";d{}={}", hexs(k), ints(w)));
            } else {
                s.push_str(&format!(";d{}={}={}", hexs(k), ints(w), hexs(c)));
            }
        }
        for t in &self.tag_models {
            let cats: Vec<String> = t
                .tags
                .iter()
                .map(|c| if c.is_empty() { "_".to_string() } else { c.iter().map(|x| hexs(x)).collect::<Vec<_>>().join(",") })
                .collect();
            s.push_str(&format!(";g{}|{}|{}", hexs(&t.token), cats.join("+"), ints(&t.bias)));
            for g in &t.char_ngrams {
                s.push_str(&format!("|c{}", hexs(&g.ngram)));
                for (rel, w) in &g.weights {
                    s.push_str(&format!("@{}={}", rel, ints(w)));
                }
            }
            for g in &t.type_ngrams {
                s.push_str(&format!("|t{}", digits(&g.ngram)));
                for (rel, w) in &g.weights {
                    s.push_str(&format!("@{}={}", rel, ints(w)));
                }
            }
        }
        s
    }

    pub fn parse(s: &str) -> Option<AbsModel> {
        let mut it = s.split(';');
        let head = it.next()?.strip_prefix('M')?;
        let h: Vec<&str> = head.split('.').collect();
        if h.len() != 3 {
            return None;
        }
        let mut m = AbsModel { char_w: h[0].parse().ok()?, type_w: h[1].parse().ok()?, bias: h[2].parse().ok()?, ..Default::default() };
        for e in it {
            let (kind, body) = e.split_at(1);
            match kind {
                "c" => {
                    let f: Vec<&str> = body.split('=').collect();
                    if f.len() != 2 {
                        return None;
                    }
                    m.char_ngrams.push((unhexs(f[0])?, parse_ints(f[1])?));
                }
                "t" => {
                    let f: Vec<&str> = body.split('=').collect();
                    if f.len() != 2 {
                        return None;
                    }
                    m.type_ngrams.push((parse_digits(f[0])?, parse_ints(f[1])?));
                }
                "d" => {
                    let f: Vec<&str> = body.split('=').collect();
                    match f.len() {
                        2 => m.dict.push((unhexs(f[0])?, parse_ints(f[1])?, String::new())),
                        3 => m.dict.push((unhexs(f[0])?, parse_ints(f[1])?, unhexs(f[2])?)),
                        _ => return None,
                    }
                }
                "g" => {
                    let f: Vec<&str> = body.split('|').collect();
                    if f.len() < 3 {
                        return None;
                    }
                    let mut t = AbsTagModel { token: unhexs(f[0])?, bias: parse_ints(f[2])?, ..Default::default() };
                    if !f[1].is_empty() {
                        for c in f[1].split('+') {
                            if c == "_" {
                                t.tags.push(vec![]);
                            } else {
                                t.tags.push(c.split(',').map(unhexs).collect::<Option<Vec<_>>>()?);
                            }
                        }
                    }
                    for g in &f[3..] {
                        let mut parts = g.split('@');
                        let head = parts.next()?;
                        let mut ws = vec![];
                        for p in parts {
                            let (rel, w) = p.split_once('=')?;
                            ws.push((rel.parse().ok()?, parse_ints(w)?));
                        }
                        if let Some(k) = head.strip_prefix('c') {
                            t.char_ngrams.push(TagNgram { ngram: unhexs(k)?, weights: ws });
                        } else if let Some(k) = head.strip_prefix('t') {
                            t.type_ngrams.push(TagNgram { ngram: parse_digits(k)?, weights: ws });
                        } else {
                            return None;
                        }
                    }
                    m.tag_models.push(t);
                }
                _ => return None,
            }
        }
        Some(m)
    }

    /// the bytes of a model file holding this model, produced by the harness's own mirror structs
    pub fn to_bytes(&self) -> Vec<u8> {
        let data = ModelDataM {
            char_ngram_model: self.char_ngrams.iter().map(|(k, w)| NgramS { ngram: k.clone(), weights: w.clone() }).collect(),
            type_ngram_model: self.type_ngrams.iter().map(|(k, w)| NgramT { ngram: k.clone(), weights: w.clone() }).collect(),
            dict_model: self.dict.iter().map(|(k, w, c)| WordM { word: k.clone(), weights: w.clone(), comment: c.clone() }).collect(),
            bias: self.bias,
            char_window_size: self.char_w,
            type_window_size: self.type_w,
            tag_models: self
                .tag_models
                .iter()
                .map(|t| TagModelM {
                    token: t.token.clone(),
                    tags: t.tags.clone(),
                    char_ngram_model: t
                        .char_ngrams
                        .iter()
                        .map(|g| TagNgramS {
                            ngram: g.ngram.clone(),
                            weights: g.weights.iter().map(|(r, w)| TagWeightM { rel_position: *r, weights: w.clone() }).collect(),
                        })
                        .collect(),
                    type_ngram_model: t
                        .type_ngrams
                        .iter()
                        .map(|g| TagNgramT {
                            ngram: g.ngram.clone(),
                            weights: g.weights.iter().map(|(r, w)| TagWeightM { rel_position: *r, weights: w.clone() }).collect(),
                        })
                        .collect(),
                    bias: t.bias.clone(),
                })
                .collect(),
        };
        let mut out = MODEL_MAGIC.to_vec();
        out.extend(bincode::encode_to_vec(&data, bincode::config::standard()).unwrap());
        out
    }

    pub fn load(&self) -> Result<vaporetto::Model, String> {
        let bytes = self.to_bytes();
        match vaporetto::Model::read_slice(&bytes) {
            Ok((m, rest)) if rest.is_empty() => Ok(m),
            Ok(_) => Err("trailing bytes after the model".into()),
            Err(e) => Err(format!("{e}")),
        }
    }

    /// brute-force specification: bias + every occurrence of every entry, pattern-indexed
    pub fn spec_scores(&self, text: &str) -> Vec<i64> {
        let chars: Vec<char> = text.chars().collect();
        let types: Vec<u8> = chars.iter().map(|&c| vaporetto::CharacterType::get_type(c) as u8).collect();
        let n = chars.len();
        let mut out = vec![self.bias as i64; n.saturating_sub(1)];
        let getz = |w: &[i32], i: i64| -> i64 { if i >= 0 && (i as usize) < w.len() { w[i as usize] as i64 } else { 0 } };
        for b in 0..n.saturating_sub(1) {
            for (g, w) in &self.char_ngrams {
                let g: Vec<char> = g.chars().collect();
                for e in 1..=n {
                    if e >= g.len() && chars[e - g.len()..e] == g[..] {
                        out[b] += getz(w, b as i64 + 1 + self.char_w as i64 - e as i64);
                    }
                }
            }
            for (g, w) in &self.type_ngrams {
                for e in 1..=n {
                    if e >= g.len() && types[e - g.len()..e] == g[..] {
                        out[b] += getz(w, b as i64 + 1 + self.type_w as i64 - e as i64);
                    }
                }
            }
            for (g, w, _) in &self.dict {
                let g: Vec<char> = g.chars().collect();
                for e in 1..=n {
                    if e >= g.len() && chars[e - g.len()..e] == g[..] {
                        out[b] += getz(w, b as i64 + 1 + g.len() as i64 - e as i64);
                    }
                }
            }
        }
        out
    }

    /// number of trainable classes of a tag model
    pub fn n_class(tags: &[Vec<String>]) -> usize {
        tags.iter().filter(|c| c.len() >= 2).map(|c| c.len()).sum()
    }

    /// brute-force tag specification for the token `[st, en)`: (tag row of `n_tags` slots, class scores)
    pub fn tag_spec(&self, text: &str, st: usize, en: usize) -> (Vec<Option<String>>, Vec<i64>) {
        let chars: Vec<char> = text.chars().collect();
        let types: Vec<u8> = chars.iter().map(|&c| vaporetto::CharacterType::get_type(c) as u8).collect();
        let n_tags = self.tag_models.iter().map(|t| t.tags.len()).max().unwrap_or(0);
        let surface: String = chars[st..en].iter().collect();
        let Some(tm) = self.tag_models.iter().rev().find(|t| t.token == surface) else {
            return (vec![None; n_tags], vec![]);
        };
        let i = en - 1;
        let n = chars.len();
        let nc = Self::n_class(&tm.tags);
        let mut scores = vec![0i64; nc];
        for (c, sc) in scores.iter_mut().enumerate() {
            *sc += tm.bias.get(c).copied().unwrap_or(0) as i64;
            for g in &tm.char_ngrams {
                let gc: Vec<char> = g.ngram.chars().collect();
                for (rel, w) in &g.weights {
                    let e = i + *rel as usize + 1;
                    if e <= n && e >= gc.len() && chars[e - gc.len()..e] == gc[..] {
                        *sc += w.get(c).copied().unwrap_or(0) as i64;
                    }
                }
            }
            for g in &tm.type_ngrams {
                for (rel, w) in &g.weights {
                    let e = i + *rel as usize + 1;
                    if e <= n && e >= g.ngram.len() && types[e - g.ngram.len()..e] == g.ngram[..] {
                        *sc += w.get(c).copied().unwrap_or(0) as i64;
                    }
                }
            }
        }
        let mut row: Vec<Option<String>> = vec![];
        let mut off = 0;
        for cands in &tm.tags {
            if cands.len() >= 2 {
                let sl = &scores[off..off + cands.len()];
                let mut idx = 0;
                for (k, &x) in sl.iter().enumerate() {
                    if x > sl[idx] {
                        idx = k;
                    }
                }
                row.push(Some(cands[idx].clone()));
                off += cands.len();
            } else {
                row.push(cands.first().cloned());
            }
        }
        while row.len() < n_tags {
            row.push(None);
        }
        (row, scores)
    }

    /// well-formedness of the tag models (C06): unique tokens, bias and weight vectors of `n_class` entries,
    /// relative positions within the window, non-empty n-grams, type codes 1..6
    pub fn tags_well_formed(&self) -> bool {
        let mut toks: Vec<&String> = self.tag_models.iter().map(|t| &t.token).collect();
        let k = toks.len();
        toks.sort();
        toks.dedup();
        toks.len() == k
            && self.tag_models.iter().all(|t| {
                let nc = Self::n_class(&t.tags);
                !t.token.is_empty()
                    && t.bias.len() == nc
                    && t.char_ngrams.iter().all(|g| {
                        !g.ngram.is_empty() && g.weights.iter().all(|(r, w)| *r <= self.char_w && w.len() == nc)
                    })
                    && t.type_ngrams.iter().all(|g| {
                        !g.ngram.is_empty()
                            && g.ngram.iter().all(|c| (1..=6).contains(c))
                            && g.weights.iter().all(|(r, w)| *r <= self.type_w && w.len() == nc)
                    })
            })
    }

    /// the well-formedness the properties quantify over (C01)
    pub fn well_formed(&self) -> bool {
        let uniq = |ks: Vec<String>| {
            let mut s = ks.clone();
            s.sort();
            s.dedup();
            s.len() == ks.len()
        };
        let i16ok = |w: &[i32]| w.iter().all(|&x| (-32767..=32767).contains(&x));
        self.char_w >= 1
            && self.type_w >= 1
            && uniq(self.char_ngrams.iter().map(|x| x.0.clone()).collect())
            && uniq(self.type_ngrams.iter().map(|x| digits(&x.0)).collect())
            && uniq(self.dict.iter().map(|x| x.0.clone()).collect())
            && self.char_ngrams.iter().all(|(k, w)| {
                let l = k.chars().count();
                l >= 1 && l <= 2 * self.char_w as usize && w.len() == 2 * self.char_w as usize - l + 1 && i16ok(w)
            })
            && self.type_ngrams.iter().all(|(k, w)| {
                let l = k.len();
                l >= 1 && l <= 2 * self.type_w as usize && w.len() == 2 * self.type_w as usize - l + 1 && i16ok(w) && k.iter().all(|t| (1..=6).contains(t))
            })
            && self.dict.iter().all(|(k, w, _)| {
                let l = k.chars().count();
                l >= 1 && w.len() == l + 1 && i16ok(w)
            })
    }
}

#[derive(Encode, Decode)]
struct NgramS {
    ngram: String,
    weights: Vec<i32>,
}
#[derive(Encode, Decode)]
struct NgramT {
    ngram: Vec<u8>,
    weights: Vec<i32>,
}
#[derive(Encode, Decode)]
struct WordM {
    word: String,
    weights: Vec<i32>,
    comment: String,
}
#[derive(Encode, Decode)]
struct TagWeightM {
    rel_position: u8,
    weights: Vec<i32>,
}
#[derive(Encode, Decode)]
struct TagNgramS {
    ngram: String,
    weights: Vec<TagWeightM>,
}
#[derive(Encode, Decode)]
struct TagNgramT {
    ngram: Vec<u8>,
    weights: Vec<TagWeightM>,
}
#[derive(Encode, Decode)]
struct TagModelM {
    token: String,
    tags: Vec<Vec<String>>,
    char_ngram_model: Vec<TagNgramS>,
    type_ngram_model: Vec<TagNgramT>,
    bias: Vec<i32>,
}
#[derive(Encode, Decode)]
struct ModelDataM {
    char_ngram_model: Vec<NgramS>,
    type_ngram_model: Vec<NgramT>,
    dict_model: Vec<WordM>,
    bias: i32,
    char_window_size: u8,
    type_window_size: u8,
    tag_models: Vec<TagModelM>,
}

impl AbsModel {
    /// decodes a model file with the harness's own mirror of the wire format
    pub fn from_bytes(bytes: &[u8]) -> Option<AbsModel> {
        let body = bytes.strip_prefix(MODEL_MAGIC)?;
        let (d, _): (ModelDataM, usize) = bincode::decode_from_slice(body, bincode::config::standard()).ok()?;
        Some(AbsModel {
            char_w: d.char_window_size,
            type_w: d.type_window_size,
            bias: d.bias,
            char_ngrams: d.char_ngram_model.into_iter().map(|x| (x.ngram, x.weights)).collect(),
            type_ngrams: d.type_ngram_model.into_iter().map(|x| (x.ngram, x.weights)).collect(),
            dict: d.dict_model.into_iter().map(|x| (x.word, x.weights, x.comment)).collect(),
            tag_models: d
                .tag_models
                .into_iter()
                .map(|t| AbsTagModel {
                    token: t.token,
                    tags: t.tags,
                    char_ngrams: t
                        .char_ngram_model
                        .into_iter()
                        .map(|g| TagNgram { ngram: g.ngram, weights: g.weights.into_iter().map(|w| (w.rel_position, w.weights)).collect() })
                        .collect(),
                    type_ngrams: t
                        .type_ngram_model
                        .into_iter()
                        .map(|g| TagNgram { ngram: g.ngram, weights: g.weights.into_iter().map(|w| (w.rel_position, w.weights)).collect() })
                        .collect(),
                    bias: t.bias,
                })
                .collect(),
        })
    }
}

/// every weight stored in a model file
pub fn all_weights(bytes: &[u8]) -> Option<Vec<i32>> {
    let m = AbsModel::from_bytes(bytes)?;
    let mut v = vec![m.bias];
    for (_, w) in &m.char_ngrams {
        v.extend(w);
    }
    for (_, w) in &m.type_ngrams {
        v.extend(w);
    }
    for (_, w, _) in &m.dict {
        v.extend(w);
    }
    for t in &m.tag_models {
        v.extend(&t.bias);
        for g in &t.char_ngrams {
            for (_, w) in &g.weights {
                v.extend(w);
            }
        }
        for g in &t.type_ngrams {
            for (_, w) in &g.weights {
                v.extend(w);
            }
        }
    }
    Some(v)
}

// ------------------------------------------------------------------------------------------------
// generators
// ------------------------------------------------------------------------------------------------

/// 1–4-byte characters of all six character types
pub const ALPHA: &[char] = &['a', 'b', 'Z', '1', '７', 'あ', 'い', 'カ', 'ｶ', '漢', '字', '𠮷', '。', 'é', ' '];

pub fn rand_weight(r: &mut Rng) -> i32 {
    match r.below(20) {
        0 => 32767,
        1 => -32767,
        2 => 0,
        _ => r.range(-60, 60) as i32,
    }
}

pub fn rand_weights(r: &mut Rng, n: usize) -> Vec<i32> {
    (0..n).map(|_| rand_weight(r)).collect()
}

fn rand_word(r: &mut Rng, alpha: &[char], min: usize, max: usize) -> String {
    let n = r.range(min as i64, max as i64) as usize;
    (0..n).map(|_| *r.pick(alpha)).collect()
}

pub struct GenOpts {
    pub windows: &'static [u8],
    pub max_ngrams: usize,
    pub max_words: usize,
    pub max_word_len: usize,
}

/// a well-formed boundary model over a small sub-alphabet (so that occurrences are frequent), with
/// suffix-related n-grams and words equal to n-grams
pub fn gen_model(r: &mut Rng, o: &GenOpts) -> (AbsModel, Vec<char>) {
    let k = r.range(2, 5) as usize;
    let mut alpha: Vec<char> = vec![];
    while alpha.len() < k {
        let c = *r.pick(ALPHA);
        if !alpha.contains(&c) {
            alpha.push(c);
        }
    }
    let cw = *r.pick(o.windows);
    let tw = *r.pick(o.windows);
    let mut m = AbsModel { char_w: cw, type_w: tw, bias: r.range(-30, 30) as i32, ..Default::default() };
    let n_c = r.below(o.max_ngrams + 1);
    let mut keys: Vec<String> = vec![];
    for _ in 0..n_c {
        let max_len = (2 * cw as usize).min(6);
        let g = if !keys.is_empty() && r.chance(2, 5) {
            // a proper suffix or an extension of an existing n-gram
            let base: Vec<char> = r.pick(&keys).chars().collect();
            if base.len() > 1 && r.chance(1, 2) {
                base[r.range(1, base.len() as i64 - 1) as usize..].iter().collect()
            } else if base.len() < max_len {
                let mut s = String::new();
                s.push(*r.pick(&alpha));
                s.extend(base.iter());
                s
            } else {
                rand_word(r, &alpha, 1, max_len)
            }
        } else {
            rand_word(r, &alpha, 1, max_len)
        };
        if !keys.contains(&g) {
            keys.push(g);
        }
    }
    for g in &keys {
        let l = g.chars().count();
        m.char_ngrams.push((g.clone(), rand_weights(r, 2 * cw as usize - l + 1)));
    }
    let types: Vec<u8> = {
        let mut t: Vec<u8> = alpha.iter().map(|&c| vaporetto::CharacterType::get_type(c) as u8).collect();
        t.sort();
        t.dedup();
        t
    };
    let n_t = r.below(o.max_ngrams + 1);
    let mut tkeys: Vec<Vec<u8>> = vec![];
    for _ in 0..n_t {
        let max_len = (2 * tw as usize).min(6);
        let l = r.range(1, max_len as i64) as usize;
        let g: Vec<u8> = if !tkeys.is_empty() && r.chance(2, 5) {
            let base = r.pick(&tkeys).clone();
            if base.len() > 1 { base[1..].to_vec() } else { (0..l).map(|_| *r.pick(&types)).collect() }
        } else {
            (0..l).map(|_| if r.chance(1, 8) { r.range(1, 6) as u8 } else { *r.pick(&types) }).collect()
        };
        if !tkeys.contains(&g) {
            tkeys.push(g);
        }
    }
    for g in &tkeys {
        m.type_ngrams.push((g.clone(), rand_weights(r, 2 * tw as usize - g.len() + 1)));
    }
    let n_d = r.below(o.max_words + 1);
    let mut words: Vec<String> = vec![];
    for _ in 0..n_d {
        let w = if !keys.is_empty() && r.chance(1, 3) { r.pick(&keys).clone() } else { rand_word(r, &alpha, 1, o.max_word_len) };
        // a word may be listed more than once (the file format allows it; the weights of the records add up)
        if !words.contains(&w) || r.chance(1, 5) {
            words.push(w);
        }
    }
    for w in &words {
        let l = w.chars().count();
        m.dict.push((w.clone(), rand_weights(r, l + 1), String::new()));
    }
    (m, alpha)
}

/// a text made of occurrences of the model's patterns plus filler, so both sentence edges are hit
pub fn gen_text(r: &mut Rng, m: &AbsModel, alpha: &[char], max_len: usize) -> String {
    let target = r.range(1, max_len as i64) as usize;
    let mut s: Vec<char> = vec![];
    while s.len() < target {
        let pick = r.below(4);
        if pick == 0 && !m.char_ngrams.is_empty() {
            s.extend(r.pick(&m.char_ngrams).0.chars());
        } else if pick == 1 && !m.dict.is_empty() {
            s.extend(r.pick(&m.dict).0.chars());
        } else {
            s.push(*r.pick(alpha));
        }
    }
    s.truncate(target.max(1));
    s.iter().collect()
}

fn small_weights(r: &mut Rng, n: usize) -> Vec<i32> {
    (0..n).map(|_| if r.chance(1, 12) { *r.pick(&[32767, -32767]) } else { r.range(-3, 3) as i32 }).collect()
}

/// adds 0..max well-formed tag models to a boundary model
pub fn gen_tag_models(r: &mut Rng, m: &mut AbsModel, alpha: &[char], max: usize) {
    let k = r.below(max + 1);
    let mut tokens: Vec<String> = vec![];
    for _ in 0..k {
        let t = if !m.dict.is_empty() && r.chance(1, 3) {
            r.pick(&m.dict).0.clone()
        } else {
            rand_word(r, alpha, 1, 3)
        };
        if !tokens.contains(&t) {
            tokens.push(t);
        }
    }
    let types: Vec<u8> = {
        let mut t: Vec<u8> = alpha.iter().map(|&c| vaporetto::CharacterType::get_type(c) as u8).collect();
        t.sort();
        t.dedup();
        t
    };
    for token in tokens {
        let n_cat = r.below(4);
        let mut tags: Vec<Vec<String>> = vec![];
        for c in 0..n_cat {
            let n_cand = *r.pick(&[0usize, 1, 2, 2, 3, 9]);
            tags.push((0..n_cand).map(|j| format!("{}{}{}", ["名", "x/", "y "][c % 3], c, j)).collect());
        }
        let nc = AbsModel::n_class(&tags);
        let mut tm = AbsTagModel { token, tags, bias: small_weights(r, nc), ..Default::default() };
        for _ in 0..r.below(5) {
            let g = if !m.char_ngrams.is_empty() && r.chance(1, 3) {
                let base: Vec<char> = r.pick(&m.char_ngrams).0.chars().collect();
                base[r.below(base.len())..].iter().collect()
            } else {
                rand_word(r, alpha, 1, 3)
            };
            if tm.char_ngrams.iter().any(|x| x.ngram == g) {
                continue;
            }
            let mut ws: Vec<(u8, Vec<i32>)> = vec![];
            for _ in 0..r.range(1, 2) {
                let rel = r.below((m.char_w as usize).min(3) + 1) as u8;
                if !ws.iter().any(|x| x.0 == rel) {
                    ws.push((rel, small_weights(r, nc)));
                }
            }
            tm.char_ngrams.push(TagNgram { ngram: g, weights: ws });
        }
        for _ in 0..r.below(4) {
            let l = r.range(1, 3) as usize;
            let g: Vec<u8> = (0..l).map(|_| *r.pick(&types)).collect();
            if tm.type_ngrams.iter().any(|x| x.ngram == g) {
                continue;
            }
            let mut ws: Vec<(u8, Vec<i32>)> = vec![];
            for _ in 0..r.range(1, 2) {
                let rel = r.below((m.type_w as usize).min(3) + 1) as u8;
                if !ws.iter().any(|x| x.0 == rel) {
                    ws.push((rel, small_weights(r, nc)));
                }
            }
            tm.type_ngrams.push(TagNgram { ngram: g, weights: ws });
        }
        m.tag_models.push(tm);
    }
}

/// a text biased towards containing the tag models' tokens
pub fn gen_text_tags(r: &mut Rng, m: &AbsModel, alpha: &[char], max_len: usize) -> String {
    let target = r.range(1, max_len as i64) as usize;
    let mut s: Vec<char> = vec![];
    while s.len() < target {
        match r.below(4) {
            0 if !m.tag_models.is_empty() => s.extend(r.pick(&m.tag_models).token.chars()),
            1 if !m.char_ngrams.is_empty() => s.extend(r.pick(&m.char_ngrams).0.chars()),
            _ => s.push(*r.pick(alpha)),
        }
    }
    s.truncate(target.max(1));
    s.iter().collect()
}
