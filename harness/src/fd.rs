//! Family FD (run by C20): Rust's `Display` for `f64` — what `println!("Precision: {precision}")` of the evaluate tool prints —
//! against the model's `f64Display`.  It executes nothing of /repo: like family AC it validates an assumption of the model
//! (here: a transcription of a standard-library function), it detects no change.
//!   FD <16 hex digits>  →  the text of `format!("{}", f64::from_bits(bits))`
use crate::util::Rng;

pub fn gen(out: &mut dyn std::io::Write, thorough: bool, seed: u64) {
    let mut r = Rng::new(seed ^ 0xFD);
    let mut emit = |b: u64| writeln!(out, "FD {b:016x}").unwrap();
    for b in [0u64, 1, 2, 0x8000000000000000, 0x3FF0000000000000, 0x7FF0000000000000, 0xFFF0000000000000, 0x7FF8000000000000, 0x7FEFFFFFFFFFFFFF,
              0x0010000000000000, 0x000FFFFFFFFFFFFF, 0x3FD3333333333334, 0x4340000000000000, 0x44B52D02C7E14AF6, 0x44B52D02C7E14AF7, 0x4300000000000002] {
        emit(b);
    }
    // quotients of small counts, as the tool computes them
    let lim = if thorough { 120u32 } else { 40 };
    for d in 1..=lim {
        for n in 0..=d {
            emit((f64::from(n) / f64::from(d)).to_bits());
        }
    }
    // precision / recall / F1 of random i32 counts
    for _ in 0..(if thorough { 20000 } else { 1500 }) {
        let big = r.chance(1, 3);
        let sys = if big { r.range(1, i32::MAX as i64) } else { r.range(1, 5000) } as i32;
        let refn = if big { r.range(1, i32::MAX as i64) } else { r.range(1, 5000) } as i32;
        let cor = r.range(0, i64::from(sys.min(refn)) + 1) as i32;
        let (p, q) = (f64::from(cor) / f64::from(sys), f64::from(cor) / f64::from(refn));
        let f1 = 2. * p * q / (p + q);
        emit(p.to_bits());
        emit(q.to_bits());
        emit(f1.to_bits());
    }
    // every binade with 0, ±1, ±2 ulp; random patterns; subnormals; the tie family m / 2^k
    for e in (0..2047u64).step_by(if thorough { 1 } else { 9 }) {
        for m in [0u64, 1, 2, (1 << 52) - 1, (1 << 52) - 2, 1 << 51] {
            emit(e << 52 | m);
        }
    }
    for _ in 0..(if thorough { 30000 } else { 1500 }) {
        emit(r.next());
        emit(r.next() & 0x000F_FFFF_FFFF_FFFF | (r.next() & (1 << 63)));
        let m = (r.next() >> 12) | 1;
        emit((m as f64 / [2.0, 4.0, 8.0, 16.0][r.below(4)]).to_bits());
    }
}

pub fn run(toks: &[&str]) -> String {
    match toks {
        ["FD", h, ..] => match u64::from_str_radix(h, 16) {
            Ok(b) => format!("{}", f64::from_bits(b)),
            Err(_) => "bad-case".into(),
        },
        _ => "bad-case".into(),
    }
}
