//! The example programs of /repo (C16: the wasm worker; C14: the embedded device).  Cases are generated here, executed by
//! `vexamples` (harness-examples: the example sources compiled verbatim) and by the Lean driver; `run` below is the ORACLE:
//! what the library pipeline gives for the same inputs on fresh sentence objects, written from the property text.
//!   WA <model> <hex msg,…> <clusters>     EB <model> <hex text,…>
use unicode_segmentation::UnicodeSegmentation;
use vaporetto::{CharacterType, Predictor, Sentence};
use vaporetto_rules::{
    sentence_filters::{ConcatGraphemeClustersFilter, KyteaWsConstFilter},
    string_filters::KyteaFullwidthFilter,
    SentenceFilter, StringFilter,
};

use crate::model::{gen_model, gen_tag_models, gen_text_tags, AbsModel, GenOpts};
use crate::util::{catch, hexs, unhexs, Rng};

const UNITS: &[&str] = &["a", "b", "Z", "1", "９", "12", "あ", "い", "カ", "ｶ", "漢", "字", "𠮷", "。", " ", "/", "\\", "-", "e\u{301}", "🇯🇵", "ｱﾞ", "ｶﾞ", "ﾊﾟ", "｢", "－", "～", "ａ", "１２", "\r\n", "\u{200d}", "👨\u{200d}👩"];

fn texts_field(v: &[String]) -> String {
    if v.is_empty() {
        "-".into()
    } else {
        v.iter().map(|t| if t.is_empty() { "_".to_string() } else { hexs(t) }).collect::<Vec<_>>().join(",")
    }
}

fn clusters_field(msgs: &[String]) -> String {
    let v: Vec<String> = msgs
        .iter()
        .map(|l| {
            let t = catch(|| KyteaFullwidthFilter.filter(l)).unwrap_or_default();
            let c: Vec<String> = t.graphemes(true).map(|g| g.chars().count().to_string()).collect();
            if c.is_empty() { "_".to_string() } else { c.join(".") }
        })
        .collect();
    if v.is_empty() { "-".into() } else { v.join("/") }
}

fn wide(base: &str) -> String {
    base.chars().map(|c| if ('!'..='~').contains(&c) { char::from_u32(c as u32 - 0x21 + 0xFF01).unwrap() } else { c }).collect()
}

pub fn gen(out: &mut dyn std::io::Write, kind: &str, thorough: bool, seed: u64) {
    let mut r = Rng::new(seed ^ 0xE8A);
    let opts = GenOpts { windows: &[1, 2, 3, 4, 5, 9], max_ngrams: 6, max_words: 3, max_word_len: 4 };
    let n_models = if thorough { 600 } else { 60 };
    for i in 0..n_models {
        let (mut m, alpha) = gen_model(&mut r, &opts);
        if kind == "WA" && i % 4 != 3 {
            gen_tag_models(&mut r, &mut m, &alpha, 3);
        }
        if kind == "EB" && i % 3 == 0 {
            // the build script builds a predictor WITHOUT tag prediction from a model that may well have tag models
            gen_tag_models(&mut r, &mut m, &alpha, 2);
        }
        let mt = m.to_text();
        let mut msgs: Vec<String> = vec![];
        for _ in 0..r.range(2, 7) {
            msgs.push(match r.below(8) {
                0 => String::new(),
                1 | 2 => (0..r.range(1, 7)).map(|_| *r.pick(UNITS)).collect(),
                3 => {
                    // digits (the `D` filter) around other characters, half- and full-width
                    let d: String = (0..r.range(2, 6)).map(|_| *r.pick(&["1", "２", "3", "a", "あ", "９"])).collect();
                    d
                }
                _ => gen_text_tags(&mut r, &m, &alpha, 12),
            });
        }
        // one sentence object serves every message: repeat a message, follow it by its width variant, by a shorter and by a longer one
        if i % 2 == 0 {
            let base = gen_text_tags(&mut r, &m, &alpha, 8) + "a1";
            let at = r.below(msgs.len() + 1);
            for (k, l) in [base.clone(), wide(&base), base.clone(), base.chars().take(2).collect(), base.clone() + &base].into_iter().enumerate() {
                msgs.insert(at + k, l);
            }
        }
        if kind == "WA" {
            // a rejected message ends the worker (panic = abort in the browser): last, and only sometimes
            if i % 5 == 4 {
                msgs.push(format!("{}\0{}", gen_text_tags(&mut r, &m, &alpha, 4), "x"));
                msgs.push("after".into());
            }
            writeln!(out, "WA {mt} {} {}", texts_field(&msgs), clusters_field(&msgs)).unwrap();
        } else {
            let mut texts: Vec<String> = msgs.into_iter().filter(|t| !t.is_empty()).collect();
            if i % 5 == 4 {
                texts.push("a\0b".into());
                texts.push(String::new());
            }
            texts.push("🚤VaporettoはSTM32F303VCT6(FLASH:256KiB,RAM:40KiB)などの小さなデバイスでも動作します".into());
            writeln!(out, "EB {mt} {}", texts_field(&texts)).unwrap();
        }
    }
}

fn texts_of(s: &str) -> Option<Vec<String>> {
    if s == "-" {
        return Some(vec![]);
    }
    s.split(',').map(|h| if h == "_" { Some(String::new()) } else { unhexs(h) }).collect()
}

/// the oracle
pub fn run(toks: &[&str], _fails: &mut Vec<(String, String)>) -> String {
    match toks {
        ["WA", m, msgs, ..] => {
            let (Some(m), Some(msgs)) = (AbsModel::parse(m), texts_of(msgs)) else { return "bad-case".into() };
            let Ok(Ok(p)) = catch(|| m.load().and_then(|model| Predictor::new(model, true).map_err(|e| e.to_string()))) else { return "create:panic".into() };
            let mut outs = vec![];
            for msg in &msgs {
                if msg.is_empty() {
                    outs.push("0|".to_string());
                    continue;
                }
                let one = catch(|| {
                    let mut s = Sentence::from_raw(KyteaFullwidthFilter.filter(msg)).map_err(|_| ())?;
                    p.predict(&mut s);
                    ConcatGraphemeClustersFilter.filter(&mut s);
                    KyteaWsConstFilter::new(CharacterType::Digit).filter(&mut s);
                    s.fill_tags();
                    let orig: Vec<char> = msg.chars().collect();
                    let toks: Vec<String> = s
                        .iter_tokens()
                        .map(|t| {
                            let mut parts = vec![hexs(&orig[t.start()..t.end()].iter().collect::<String>())];
                            parts.extend(t.tags().iter().map(|x| match x {
                                Some(x) if !x.is_empty() => hexs(x),
                                _ => "_".to_string(),
                            }));
                            parts.join("/")
                        })
                        .collect();
                    Ok::<String, ()>(format!("{}|{}", s.n_tags(), toks.join(",")))
                });
                match one {
                    Ok(Ok(s)) => outs.push(s),
                    _ => {
                        outs.push("panic".into());
                        break;
                    }
                }
            }
            outs.join(";")
        }
        ["EB", m, texts, ..] => {
            let (Some(m), Some(texts)) = (AbsModel::parse(m), texts_of(texts)) else { return "bad-case".into() };
            let Ok(Ok(p)) = catch(|| m.load().and_then(|model| Predictor::new(model, false).map_err(|e| e.to_string()))) else { return "build:panic".into() };
            let outs: Vec<String> = texts
                .iter()
                .map(|text| {
                    let one = catch(|| {
                        let mut s = Sentence::from_raw(text.as_str()).map_err(|_| ())?;
                        p.predict(&mut s);
                        KyteaWsConstFilter::new(CharacterType::Digit).filter(&mut s);
                        let mut buf = String::new();
                        s.write_tokenized_text(&mut buf);
                        Ok::<String, ()>(buf)
                    });
                    match one {
                        Ok(Ok(b)) => format!("ok:{}", hexs(&b)),
                        _ => "panic".into(),
                    }
                })
                .collect();
            outs.join(";")
        }
        _ => "bad-case".into(),
    }
}
