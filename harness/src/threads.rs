//! C08 thread clause: one predictor shared by many threads gives, per text, the result of a sequential run.
use std::sync::Arc;

use vaporetto::{Predictor, Sentence};

use crate::model::{gen_model, gen_tag_models, gen_text_tags, GenOpts};
use crate::pred::build_pred;
use crate::sent::obs;
use crate::util::Rng;

fn assert_send_sync<T: Send + Sync>() {}

fn one(p: &Predictor, s: &mut Sentence<'_, '_>, text: &str, fill: bool) -> String {
    if s.update_raw(text.to_string()).is_err() {
        return "err".into();
    }
    // Safety of lifetimes: the sentence lives inside the thread closure that also borrows the predictor.
    let s: &mut Sentence<'_, '_> = unsafe { std::mem::transmute(s) };
    p.predict(s);
    if fill {
        s.fill_tags();
    }
    obs(s)
}

pub fn run(thorough: bool, seed: u64) {
    assert_send_sync::<Predictor>();
    let mut r = Rng::new(seed ^ 0x7412EAD5);
    let opts = GenOpts { windows: &[1, 2, 3, 4, 9], max_ngrams: 6, max_words: 4, max_word_len: 5 };
    let rounds = if thorough { 60 } else { 9 };
    let n_threads = 16;
    let mut total = 0usize;
    let mut fails = 0usize;
    // two extra rounds with LARGE tables (tens of thousands of tag models / dictionary words): whatever a predictor might
    // compute lazily over them at its first use takes long enough for the other threads to see it half done
    for round in 0..rounds + 2 {
        let (mut m, alpha) = gen_model(&mut r, &opts);
        // every scorer variant: with tag models (tag-aware scorers), without (plain / cached scorers), tags switched off
        let mode = round % 3;
        if mode != 1 {
            gen_tag_models(&mut r, &mut m, &alpha, 4);
        }
        let mut big_texts: Vec<String> = vec![];
        let (big, mode) = if round >= rounds { (true, 0) } else { (false, mode) };
        if big {
            // no boundary anywhere (bias -1, nothing else), so a whole text is one token; every text is a token with a tag model
            m = crate::model::AbsModel { char_w: 2, type_w: 2, bias: -1, ..Default::default() };
            let syll = ['a', 'b', 'あ', 'い', '漢', 'カ', '1', 'z'];
            let n_tok = if thorough { 60000 } else { 30000 };
            for k in 0..n_tok {
                let len = 1 + k % 6;
                let mut x = k;
                let tok: String = (0..len).map(|_| { let c = syll[x % 8]; x /= 8; c }).collect::<String>() + &"x".repeat(k % 7);
                if round == rounds {
                    m.tag_models.push(crate::model::AbsTagModel {
                        token: tok.clone(),
                        tags: vec![vec!["P".into(), "Q".into()], vec!["only".into()]],
                        bias: vec![(k % 3) as i32 - 1, 0],
                        ..Default::default()
                    });
                } else {
                    m.dict.push((tok.clone(), vec![1; tok.chars().count() + 1], String::new()));
                }
                if k % 97 == 0 || tok.chars().count() >= 11 {
                    big_texts.push(tok);
                }
            }
            m.tag_models.sort_by(|a, b| a.token.cmp(&b.token));
            m.tag_models.dedup_by(|a, b| a.token == b.token);
            m.dict.sort();
            m.dict.dedup_by(|a, b| a.0 == b.0);
            if round != rounds {
                m.bias = -3;
                big_texts = big_texts.chunks(3).map(|c| c.join("。")).collect();
            }
        }
        let spec = format!("{}^{}", m.to_text(), if mode == 2 { "00" } else { "11" });
        let spec_print = if big {
            format!("(generated: bias {}, {} tag models with candidates [P,Q],[only] and no n-grams, {} dictionary words; thread run, round {round})", m.bias, m.tag_models.len(), m.dict.len())
        } else {
            spec.clone()
        };
        // the sequential reference uses its own predictor: the shared one sees its very first use from all threads at once
        let Ok(p_seq) = build_pred(&spec).1 else { continue };
        let Ok(p) = build_pred(&spec).1 else { continue };
        let p = Arc::new(p);
        let barrier = Arc::new(std::sync::Barrier::new(n_threads));
        let texts: Vec<String> = if big {
            // longest tokens first: a partially computed "longest token" is wrong for exactly these
            big_texts.sort_by_key(|t| std::cmp::Reverse(t.chars().count()));
            big_texts.truncate(200);
            big_texts.clone()
        } else {
            (0..(if thorough { 400 } else { 150 })).map(|_| gen_text_tags(&mut r, &m, &alpha, 24)).collect()
        };
        let texts = Arc::new(texts);
        // sequential reference on fresh sentences
        let expected: Vec<String> = texts
            .iter()
            .map(|t| {
                let mut s = Sentence::default();
                one(&p_seq, &mut s, t, mode != 2)
            })
            .collect();
        let expected = Arc::new(expected);
        let mut handles = vec![];
        for t in 0..n_threads {
            let (p, texts, expected, barrier) = (p.clone(), texts.clone(), expected.clone(), barrier.clone());
            handles.push(std::thread::spawn(move || {
                barrier.wait();
                let mut bad = vec![];
                let mut s = Sentence::default();
                let n = texts.len();
                for k in 0..n {
                    let i = (k * (2 * t + 1) + t) % n; // a different order in every thread
                    let got = one(&p, &mut s, &texts[i], mode != 2);
                    if got != expected[i] {
                        bad.push((i, got));
                    }
                }
                (n, bad)
            }));
        }
        for h in handles {
            match h.join() {
                Ok((n, bad)) => {
                    total += n;
                    for (i, got) in bad {
                        fails += 1;
                        println!("FAIL round={round} model={spec_print} text={} concurrent={got} sequential={}", crate::util::hexs(&texts[i]), expected[i]);
                    }
                }
                Err(_) => {
                    fails += 1;
                    println!("FAIL round={round} model={spec_print} a worker thread panicked");
                }
            }
        }
    }
    println!("threads predictions={total} failures={fails}");
}
