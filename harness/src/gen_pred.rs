//! case generators for the predictor family (C01, …)
use std::io::Write;

use crate::model::{gen_model, gen_text, AbsModel, GenOpts};
use crate::util::{hexs, Rng};

pub const CFG: &str = "fct";

fn all_strings(alphabet: &[char], max_len: usize) -> Vec<String> {
    let mut out = vec![];
    let mut cur = vec![String::new()];
    for _ in 0..max_len {
        let mut next = vec![];
        for s in &cur {
            for &c in alphabet {
                let mut t = s.clone();
                t.push(c);
                next.push(t);
            }
        }
        out.extend(next.iter().cloned());
        cur = next;
    }
    out
}

pub fn gen_c01(out: &mut dyn Write, thorough: bool, seed: u64) {
    let mut r = Rng::new(seed);
    // cancelling entries (see `cancelling`)
    for (m, texts) in cancelling(&mut r, thorough) {
        let mt = m.to_text();
        for t in texts {
            writeln!(out, "H {CFG} {mt}^00 Fraw:{},pred:0,obs:SB,spec:0 c01", hexs(&t)).unwrap();
        }
    }
    // exhaustive small scope: W in {1,2}; <=2 character n-grams out of the 6 strings of length 1..2 over {a,1};
    // one optional word; type n-grams from the same shape; weights cycling through {-1,0,2}; all texts of length <= 4
    let grams = all_strings(&['a', '1'], 2);
    let texts = all_strings(&['a', '1'], if thorough { 5 } else { 4 });
    let cyc = [-1, 0, 2, 2, -1, 0, 2];
    let mk = |n: usize, k: usize| -> Vec<i32> { (0..n).map(|i| cyc[(i + k) % cyc.len()]).collect() };
    let mut subsets: Vec<Vec<usize>> = vec![vec![]];
    for i in 0..grams.len() {
        subsets.push(vec![i]);
        for j in i + 1..grams.len() {
            subsets.push(vec![i, j]);
        }
    }
    let words = ["", "a", "a1", "1a"];
    for w in [1u8, 2u8] {
        for (si, sub) in subsets.iter().enumerate() {
            for (wi, word) in words.iter().enumerate() {
                let mut m = AbsModel { char_w: w, type_w: w, bias: (si as i32 % 3) - 1, ..Default::default() };
                for (k, &gi) in sub.iter().enumerate() {
                    let g = &grams[gi];
                    let l = g.chars().count();
                    if l > 2 * w as usize {
                        continue;
                    }
                    m.char_ngrams.push((g.clone(), mk(2 * w as usize - l + 1, k + si)));
                    // type n-gram of the same shape (a -> 2, 1 -> 1), on every other subset
                    if (si + wi) % 2 == 0 {
                        let t: Vec<u8> = g.chars().map(|c| if c == 'a' { 2 } else { 1 }).collect();
                        m.type_ngrams.push((t, mk(2 * w as usize - l + 1, k + wi + 1)));
                    }
                }
                if !word.is_empty() {
                    m.dict.push((word.to_string(), mk(word.len() + 1, si + wi), String::new()));
                }
                let mt = m.to_text();
                for t in &texts {
                    writeln!(out, "H {CFG} {mt}^00 Fraw:{},pred:0,obs:SB,spec:0 c01", hexs(t)).unwrap();
                }
            }
        }
    }
    // random well-formed models: all window classes (cache <= 3 < plain; fixed layout <= 8 entries < variable)
    let opts = GenOpts { windows: &[1, 2, 3, 4, 5, 8, 9, 40], max_ngrams: 6, max_words: 4, max_word_len: 12 };
    let n_models = if thorough { 12000 } else { 400 };
    for _ in 0..n_models {
        let (m, alpha) = gen_model(&mut r, &opts);
        let mt = m.to_text();
        for _ in 0..(if thorough { 8 } else { 5 }) {
            let text = gen_text(&mut r, &m, &alpha, 30);
            // the sentence sometimes carries earlier annotations, which prediction must overwrite
            // sometimes the sentence was already predicted (by this or by another predictor) and is predicted again
            if r.chance(1, 4) {
                let (m2, _) = gen_model(&mut r, &opts);
                let first = if r.chance(1, 2) { 1 } else { 0 };
                writeln!(out, "H {CFG} {mt}^00!{}^00 Fraw:{},pred:{first},pred:0,obs:SB,spec:0 c01", m2.to_text(), hexs(&text)).unwrap();
                continue;
            }
            // the text reaches a USED sentence object through any of the three updates, right after an update that was rejected (and,
            // every other time, after the object had been predicted with other content): whatever a rejected update leaves behind
            // must not reach the prediction of the next accepted text
            if r.chance(1, 5) {
                let chars: Vec<char> = text.chars().collect();
                let bad = *r.pick(&["raw:6100", "tok:2061", "tok:612020", "tok:6100", "part:6178", "part:617861", "part:61007c62"]);
                let good = match r.below(3) {
                    0 => format!("raw:{}", hexs(&text)),
                    1 => {
                        let sep = if r.chance(1, 2) { " " } else { "" };
                        format!("tok:{}", hexs(&chars.iter().map(|c| if matches!(c, ' ' | '/' | '\\') { format!("\\{c}") } else { c.to_string() }).collect::<Vec<_>>().join(sep)))
                    }
                    _ => format!("part:{}", hexs(&chars.iter().enumerate().map(|(i, c)| if i == 0 { c.to_string() } else { format!("{}{c}", *r.pick(&[' ', '|', '-'])) }).collect::<String>())),
                };
                let first = if r.chance(1, 2) { format!("Fraw:{},pred:0,", hexs("ab")) } else { String::new() };
                writeln!(out, "H {CFG} {mt}^00 {first}{bad},{good},pred:0,obs:SB,spec:0 c01").unwrap();
                continue;
            }
            // predicted, relabelled by hand through `boundaries_mut` (unknowns included), predicted again by the same predictor
            if r.chance(1, 6) {
                let n = text.chars().count();
                if n >= 2 {
                    let labels: String = (0..n - 1).map(|_| *r.pick(&['N', 'W', 'U', 'U'])).collect();
                    writeln!(out, "H {CFG} {mt}^00 Fraw:{},pred:0,setbs:{labels},pred:0,obs:SB,spec:0 c01", hexs(&text)).unwrap();
                    continue;
                }
            }
            let pre = match r.below(3) {
                0 => format!("Fraw:{}", hexs(&text)),
                1 => {
                    let n = text.chars().count();
                    let labels: String = if n <= 1 { "-".into() } else { (0..n - 1).map(|_| *r.pick(&['N', 'W', 'U'])).collect() };
                    format!("Fraw:{},setbs:{}", hexs(&text), labels)
                }
                _ => format!("raw:{}", hexs(&text)),
            };
            writeln!(out, "H {CFG} {mt}^00 {pre},pred:0,obs:SB,spec:0 c01").unwrap();
        }
    }
    // heavy weights: every weight is a legal 16-bit value, sums at one boundary leave the 16-bit range by far (overlapping
    // n-grams of one kind, all windows incl. the cached type scorer)
    for i in 0..(if thorough { 120 } else { 24 }) {
        let w = 1 + (i % 4) as u8;
        let big = [32767, 20000, -32767, -20000, 15000][i % 5];
        let mut m = AbsModel { char_w: w, type_w: w, bias: if i % 2 == 0 { 32767 } else { -3 }, ..Default::default() };
        let n1 = 2 * w as usize;
        match i % 3 {
            0 => {
                m.type_ngrams.push((vec![3], vec![big; n1]));
                if w >= 1 {
                    m.type_ngrams.push((vec![3, 3], vec![big / 2 + 1; n1 - 1]));
                }
                m.type_ngrams.push((vec![5], vec![-big; n1]));
            }
            1 => {
                m.char_ngrams.push(("あ".into(), vec![big; n1]));
                m.char_ngrams.push(("ああ".into(), vec![big; n1 - 1]));
                m.dict.push(("ああ".into(), vec![big, big, big], String::new()));
            }
            _ => {
                m.type_ngrams.push((vec![3], vec![big; n1]));
                m.char_ngrams.push(("あ".into(), vec![-big; n1]));
                m.dict.push(("あ".into(), vec![big, -big], String::new()));
            }
        }
        let mt = m.to_text();
        for t in ["ああ", "あああああ", "漢あああ漢", "あア", "東京都ああああああああ"] {
            writeln!(out, "H {CFG} {mt}^00 Fraw:{},pred:0,obs:SB,spec:0 c01", hexs(t)).unwrap();
        }
    }
    // the edge of the i32 range (`C01_no_overflow`): models whose mass |bias| + Σ|weights| is exactly 2^31 − 1 (or a little
    // less), on texts where one boundary collects every weight of every entry: no sum may overflow (the harness is built with
    // overflow checks), and the scores must still be the linear model's.  Both signs, windows 1–4 (cached and automaton type
    // scorer), one kind at a time and all kinds together with suffix-related entries (merged coordinates add up at build time)
    for i in 0..(if thorough { 192 } else { 48 }) {
        let w = 1 + (i % 4) as u8;
        let n1 = 2 * w as usize;
        let sign: i64 = if (i / 4) % 2 == 0 { 1 } else { -1 };
        let total: i64 = i32::MAX as i64 - [0, 0, 1, 17][(i / 8) % 4];
        let mut m = AbsModel { char_w: w, type_w: w, ..Default::default() };
        let mut left = total;
        let take = |share: i64, n: usize, left: &mut i64| -> Vec<i32> {
            let q = (share / n as i64).min(*left / n as i64);
            *left -= q * n as i64;
            vec![(sign * q) as i32; n]
        };
        match (i / 32) % 6 {
            0 => m.char_ngrams.push(("あ".into(), take(total, n1, &mut left))),
            1 => m.type_ngrams.push((vec![3], take(total, n1, &mut left))),
            2 => m.dict.push(("ああ".into(), take(total, 3, &mut left), String::new())),
            3 => {
                // suffix chain: あ, ああ (and the word ああ): the merged vector of ああ carries all three
                m.char_ngrams.push(("あ".into(), take(total / 3, n1, &mut left)));
                m.char_ngrams.push(("ああ".into(), take(total / 3, n1 - 1, &mut left)));
                m.dict.push(("ああ".into(), take(total / 3, 3, &mut left), String::new()));
            }
            4 => {
                m.type_ngrams.push((vec![3], take(total / 2, n1, &mut left)));
                m.type_ngrams.push((vec![3, 3], take(total / 2, n1 - 1, &mut left)));
            }
            _ => {
                m.char_ngrams.push(("あ".into(), take(total / 5, n1, &mut left)));
                m.char_ngrams.push(("ああ".into(), take(total / 5, n1 - 1, &mut left)));
                m.type_ngrams.push((vec![3], take(total / 5, n1, &mut left)));
                m.type_ngrams.push((vec![3, 3], take(total / 5, n1 - 1, &mut left)));
                m.dict.push(("あ".into(), take(total / 5, 2, &mut left), String::new()));
            }
        }
        m.bias = (sign * left) as i32;   // the remainder: the mass is exactly `total`
        let mt = m.to_text();
        for len in [2usize, n1 + 2, 2 * n1 + 3] {
            let t: String = std::iter::repeat('あ').take(len).collect();
            writeln!(out, "H {CFG} {mt}^00 Fraw:{},pred:0,obs:SB,spec:0 c01", hexs(&t)).unwrap();
        }
        writeln!(out, "H {CFG} {mt}^00 Fraw:{},pred:0,obs:SB,spec:0 c01", hexs("漢あああああ漢ああ")).unwrap();
    }
    // dictionaries as training produces them (words of one length share one weight vector; lengths around 8)
    for _ in 0..(if thorough { 100 } else { 12 }) {
        let (mut m, alpha) = gen_model(&mut r, &GenOpts { windows: &[1, 2, 3, 4], max_ngrams: 4, max_words: 0, max_word_len: 2 });
        m.dict = trained_like_dict(&mut r, &alpha);
        let mt = m.to_text();
        for k in 0..4 {
            let mut text = gen_text(&mut r, &m, &alpha, 10);
            for d in m.dict.iter().skip(k).step_by(2) {
                text.push_str(&d.0);
                text.push(*r.pick(&alpha));
            }
            writeln!(out, "H {CFG} {mt}^00 Fraw:{},pred:0,obs:SB,spec:0 c01", hexs(&text)).unwrap();
        }
    }
    // sparse weight vectors at wide windows (see `sparse_wide`)
    for (m, texts) in sparse_wide(thorough) {
        let mt = m.to_text();
        for t in texts {
            writeln!(out, "H {CFG} {mt}^00 Fraw:{},pred:0,obs:SB,spec:0 c01", hexs(&t)).unwrap();
        }
    }
    // long texts (hundreds of characters): buffer growth, positions beyond 255, many matches
    let lopts = GenOpts { windows: &[1, 2, 3, 4, 9], max_ngrams: 6, max_words: 3, max_word_len: 6 };
    for i in 0..(if thorough { 40 } else { 4 }) {
        let (m, alpha) = gen_model(&mut r, &lopts);
        let len = if thorough { [130, 255, 256, 257, 300, 520, 700, 330][i % 8] } else { [130, 255, 256, 257][i % 4] };
        let mut text = String::new();
        while text.chars().count() < len {
            text.push_str(&gen_text(&mut r, &m, &alpha, 24));
        }
        let text: String = text.chars().take(len).collect();
        writeln!(out, "H {CFG} {}^00 Fraw:{},pred:0,obs:SB,spec:0 c01", m.to_text(), hexs(&text)).unwrap();
    }
}

/// cancelling entries: a longer entry whose weights are exactly the negated weights of the entry it ends with, so that the
/// two sum to zero wherever the longer one occurs (an entry with all-zero *merged* weights is not a no-op: the automaton
/// reports only the longest entry per end position, and that entry stands for all of its suffixes)
pub fn cancelling(r: &mut Rng, thorough: bool) -> Vec<(AbsModel, Vec<String>)> {
    let mut res: Vec<(AbsModel, Vec<String>)> = vec![];
    for k in 0..(if thorough { 200 } else { 40 }) {
        let w = 1 + (k % 4) as u8;          // windows 1..4 (type window 4: the automaton scorer, not the cache)
        let alpha = [['都', '京', '東', 'に'], ['a', 'b', '1', ' '], ['𠮷', 'あ', 'カ', 'z']][k % 3];
        let short: String = alpha[..1 + r.below(2.min(2 * w as usize - 1).max(1))].iter().collect();
        let long: String = format!("{}{}", alpha[3 - r.below(2)], short);
        let (ls, ll) = (short.chars().count(), long.chars().count());
        let mut m = AbsModel { char_w: w, type_w: w, bias: r.range(-3, 3) as i32, ..Default::default() };
        match k % 3 {
            0 => {
                // dictionary words: weights are aligned at the END of the word
                let ws: Vec<i32> = (0..=ls).map(|_| r.range(1, 9) as i32).collect();
                let mut wl = vec![0i32; ll + 1];
                for (i, x) in ws.iter().enumerate() {
                    wl[ll - ls + i] = -x;
                }
                m.dict.push((short.clone(), ws, String::new()));
                m.dict.push((long.clone(), wl, String::new()));
                m.dict.push((alpha[2].to_string(), vec![3, -4], String::new()));
            }
            1 if ll <= 2 * w as usize => {
                // character n-grams: weight vectors are aligned at their START; the shorter one covers more positions
                let n_s = 2 * w as usize - ls + 1;
                let n_l = 2 * w as usize - ll + 1;
                let mut ws: Vec<i32> = (0..n_s).map(|_| r.range(1, 9) as i32).collect();
                for x in ws.iter_mut().skip(n_l) {
                    *x = 0;
                }
                let wl: Vec<i32> = ws[..n_l].iter().map(|x| -x).collect();
                m.char_ngrams.push((short.clone(), ws));
                m.char_ngrams.push((long.clone(), wl));
                m.char_ngrams.push((alpha[2].to_string(), (0..2 * w as usize).map(|i| i as i32 - 1).collect()));
            }
            2 if ll <= 2 * w as usize => {
                let ty = |s: &str| -> Vec<u8> { s.chars().map(|c| vaporetto::CharacterType::get_type(c) as u8).collect() };
                let (ts, tl) = (ty(&short), ty(&long));
                if tl.ends_with(&ts) && tl != ts {
                    let n_s = 2 * w as usize - ls + 1;
                    let n_l = 2 * w as usize - ll + 1;
                    let mut ws: Vec<i32> = (0..n_s).map(|_| r.range(1, 9) as i32).collect();
                    for x in ws.iter_mut().skip(n_l) {
                        *x = 0;
                    }
                    let wl: Vec<i32> = ws[..n_l].iter().map(|x| -x).collect();
                    m.type_ngrams.push((ts, ws));
                    m.type_ngrams.push((tl, wl));
                }
                m.char_ngrams.push((alpha[2].to_string(), (0..2 * w as usize).map(|i| i as i32 - 1).collect()));
            }
            _ => continue,
        }
        res.push((m, vec![format!("{}{long}{}", alpha[2], alpha[3]), format!("{long}{short}{long}"), format!("{short}{}{long}", alpha[2])]));
    }
    res
}

/// sparse weight vectors at wide windows: only the first k / the last k / one position carries a weight (k around the
/// 8-entry fixed layout), alone and merged with a suffix entry, with the entry occurring at the very start, in the middle
/// and at the very end of texts shorter and longer than the window (a vector may reach beyond either end of the text)
pub fn sparse_wide(thorough: bool) -> Vec<(AbsModel, Vec<String>)> {
    let mut res: Vec<(AbsModel, Vec<String>)> = vec![];
    {
        let shapes = |n: usize, k: usize| -> Vec<Vec<i32>> {
            let mut v = vec![];
            let k = k.min(n);
            v.push((0..n).map(|i| if i < k { 3 + i as i32 } else { 0 }).collect());          // first k
            v.push((0..n).map(|i| if i + k >= n { -2 - i as i32 } else { 0 }).collect());    // last k
            v.push((0..n).map(|i| if i == k - 1 { 11 } else { 0 }).collect());               // k-th only
            v.push((0..n).map(|i| if i + k == n { -7 } else { 0 }).collect());               // k-th from the end only
            v
        };
        let ws: &[u8] = if thorough { &[8, 9, 10, 12, 16, 40] } else { &[8, 9, 12] };
        let mut count = 0usize;
        for &w in ws {
            for len in 1..=2usize {
                let n = 2 * w as usize - len + 1;
                for k in [1usize, 7, 8, 9] {
                    for (si, shape) in shapes(n, k).into_iter().enumerate() {
                        count += 1;
                        if !thorough && count % 2 == 0 {
                            continue;
                        }
                        let gram: String = ['a', 'b'][..len].iter().collect();
                        let mut m = AbsModel { char_w: w, type_w: w, bias: 1, ..Default::default() };
                        match (count / 2) % 3 {
                            0 => m.char_ngrams.push((gram.clone(), shape.clone())),
                            1 => m.type_ngrams.push((vec![2u8; len], shape.clone())),
                            _ => {
                                // the same through a merge: the longer entry ends with the shorter one
                                m.char_ngrams.push((gram.clone(), shape.clone()));
                                let nl = 2 * w as usize - (len + 1) + 1;
                                m.char_ngrams.push((format!("あ{gram}"), (0..nl).map(|i| if i < 8 { 1 } else { 0 }).collect()));
                            }
                        }
                        if si % 2 == 0 {
                            let wl = 8 + (count % 3);
                            let word: String = (0..wl).map(|i| ['a', 'あ'][i % 2]).collect();
                            m.dict.push((word, (0..=wl).map(|i| if i < k { 5 } else { 0 }).collect(), String::new()));
                        }
                        let fill = |c: usize| -> String { (0..c).map(|i| ['漢', '1', 'カ'][i % 3]).collect() };
                        let texts: Vec<String> = vec![
                            format!("{gram}{}", fill(2)),
                            format!("{gram}{}", fill(w as usize + 3)),
                            format!("あ{gram}{}", fill(2 * w as usize + 2)),
                            format!("{}{gram}", fill(w as usize - 7)),
                            format!("{}{gram}{}", fill(3), fill(1)),
                            format!("{}aあaあaあaあaあa{gram}", fill(2 * w as usize)),
                            gram.clone(),
                        ];
                        res.push((m, texts));
                    }
                }
            }
        }
    }
    res
}

/// a dictionary as training produces it: several words of each length, all words of one length bucket with the SAME
/// weight vector, lengths on both sides of the 8-entry fixed layout
pub fn trained_like_dict(r: &mut Rng, alpha: &[char]) -> Vec<(String, Vec<i32>, String)> {
    let mut out: Vec<(String, Vec<i32>, String)> = vec![];
    let (l, i, rt) = (r.range(-40, 40) as i32, r.range(-40, 40) as i32, r.range(-40, 40) as i32);
    for len in [2usize, 7, 8, 8, 9, 9, 9, 12] {
        let w: String = (0..len).map(|_| *r.pick(alpha)).collect();
        if out.iter().any(|d| d.0 == w) {
            continue;
        }
        let mut ws = vec![i; len + 1];
        ws[0] = l;
        ws[len] = rt;
        out.push((w, ws, String::new()));
    }
    out
}

/// a tag model with more than eight scored candidates whose tag n-grams are suffix-related at the SAME relative position, the
/// longer one with a weight vector that ends in zeros (merging the two must not lose the tail of the shorter one's weights),
/// and a text in which the longer one occurs
pub fn suffix_tag_case(r: &mut Rng, alpha: &[char]) -> (crate::model::AbsTagModel, String) {
    use crate::model::{AbsTagModel, TagNgram};
    let (t, x, f) = (alpha[0], alpha[1 % alpha.len()], alpha[alpha.len() - 1]);
    let n_c = *r.pick(&[9usize, 10, 12, 17]);
    let short: Vec<i32> = (0..n_c).map(|j| if j + 3 >= n_c { r.range(3, 9) as i32 } else { r.range(-2, 2) as i32 }).collect();
    let mut long = vec![0i32; n_c];
    long[0] = r.range(1, 4) as i32;
    let by_type = r.chance(1, 3);
    let ty = |c: char| vaporetto::CharacterType::get_type(c) as u8;
    let tm = AbsTagModel {
        token: t.to_string(),
        tags: vec![(0..n_c).map(|j| format!("t{j}")).collect()],
        char_ngrams: if by_type { vec![] } else { vec![TagNgram { ngram: x.to_string(), weights: vec![(1, short.clone())] }, TagNgram { ngram: format!("{t}{x}"), weights: vec![(1, long.clone())] }] },
        type_ngrams: if by_type { vec![TagNgram { ngram: vec![ty(x)], weights: vec![(1, short)] }, TagNgram { ngram: vec![ty(t), ty(x)], weights: vec![(1, long)] }] } else { vec![] },
        bias: (0..n_c).map(|j| (j % 3) as i32 - 1).collect(),
    };
    (tm, format!("{f}{t}{x}{f}"))
}

/// a second model over the same alphabet with fewer patterns and other weights (every other n-gram of `m`, signs flipped)
pub fn thinned(m1: &crate::model::AbsModel) -> crate::model::AbsModel {
    let mut m3 = m1.clone();
    m3.bias = -m1.bias;
    m3.char_ngrams = m1.char_ngrams.iter().enumerate().filter(|(i, _)| i % 2 == 0).map(|(_, x)| (x.0.clone(), x.1.iter().map(|w| -w).collect())).collect();
    m3.type_ngrams = m1.type_ngrams.iter().enumerate().filter(|(i, _)| i % 2 == 1).map(|(_, x)| (x.0.clone(), x.1.iter().map(|w| -w).collect())).collect();
    for tm in m3.tag_models.iter_mut() {
        tm.char_ngrams = tm.char_ngrams.iter().enumerate().filter(|(i, _)| i % 2 == 1).map(|(_, x)| x.clone()).collect();
        tm.type_ngrams = tm.type_ngrams.iter().enumerate().filter(|(i, _)| i % 2 == 0).map(|(_, x)| x.clone()).collect();
        for b in tm.bias.iter_mut() {
            *b = -*b;
        }
    }
    m3
}

/// C06: tag prediction. Boundaries come from prediction, or are then edited (as a filter would) incl. unknowns.
pub fn gen_c06(out: &mut dyn Write, thorough: bool, seed: u64) {
    use crate::model::{gen_tag_models, gen_text_tags};
    let mut r = Rng::new(seed ^ 0xC06);
    let opts = GenOpts { windows: &[1, 2, 3, 4, 9], max_ngrams: 5, max_words: 3, max_word_len: 4 };
    let n_models = if thorough { 10000 } else { 500 };
    for _ in 0..n_models {
        let (mut m, alpha) = gen_model(&mut r, &opts);
        gen_tag_models(&mut r, &mut m, &alpha, 4);
        // S-C06 probe inside the domain: sometimes drop all boundary n-grams and words so only tag n-grams remain
        if r.chance(1, 10) {
            m.char_ngrams.clear();
            m.dict.clear();
        }
        if r.chance(1, 10) {
            m.type_ngrams.clear();
        }
        let mt = m.to_text();
        let store = if r.chance(1, 2) { "1" } else { "0" };
        for _ in 0..(if thorough { 6 } else { 4 }) {
            let text = gen_text_tags(&mut r, &m, &alpha, 14);
            let n = text.chars().count();
            let mut ops = format!("Fraw:{},pred:0", hexs(&text));
            if n > 1 && r.chance(1, 2) {
                // edit some boundaries after prediction (what a sentence filter does), sometimes to unknown
                for _ in 0..r.range(1, 3) {
                    ops.push_str(&format!(",setb:{}:{}", r.below(n - 1), r.pick(&['N', 'W', 'W', 'U'])));
                }
            }
            writeln!(out, "H {CFG} {mt}^1{store} {ops},fill,obs:BKGIC,tspec:0 c06").unwrap();
            // the sentence already has a tag table of ANOTHER width when the tags are filled: set by hand (`reset_tags(k)`, k below,
            // equal to and above the model's number of categories), or brought along by annotated input (tokenized text with tags)
            if r.chance(1, 5) {
                let k = r.below(7);
                writeln!(out, "H {CFG} {mt}^1{store} Fraw:{},pred:0,reset:{k},fill,obs:BKGIC,tspec:0 c06", hexs(&text)).unwrap();
                let mut tok = String::new();
                for (j, c) in text.chars().enumerate() {
                    if j > 0 && r.chance(1, 3) {
                        for t in 0..r.below(6) {
                            tok.push_str(&format!("/t{t}"));
                        }
                        tok.push(' ');
                    }
                    if matches!(c, ' ' | '/' | '\\') {
                        tok.push('\\');
                    }
                    tok.push(c);
                }
                tok.push_str("/x/y/z/w/v");
                writeln!(out, "H {CFG} {mt}^1{store} Ftok:{},pred:0,fill,obs:BKGIC,tspec:0 c06", hexs(&tok)).unwrap();
            }
            // tags filled, boundaries moved (what a filter does), tags filled again: the second fill must see the new tokens
            if n > 1 && r.chance(1, 3) {
                let mut ops2 = format!("Fraw:{},pred:0,fill", hexs(&text));
                for _ in 0..r.range(1, 3) {
                    ops2.push_str(&format!(",setb:{}:{}", r.below(n - 1), r.pick(&['N', 'W', 'W', 'U'])));
                }
                writeln!(out, "H {CFG} {mt}^1{store} {ops2},fill,obs:BKGIC,tspec:0 c06").unwrap();
                // ... and moved BACK and filled a third time (join two tokens, split them again): what an earlier fill left at a
                // position must not survive into a later one, whatever the token at that position was in between
                let i = r.below(n - 1);
                writeln!(out, "H {CFG} {mt}^1{store} Fraw:{},pred:0,setb:{i}:W,fill,setb:{i}:N,fill,setb:{i}:W,fill,obs:BKGIC,tspec:0 c06", hexs(&text)).unwrap();
                writeln!(out, "H {CFG} {mt}^1{store} Fraw:{},pred:0,fill,setbs:{},fill,setbs:{},fill,obs:BKGIC,tspec:0 c06", hexs(&text), "N".repeat(n - 1), "W".repeat(n - 1)).unwrap();
            }
        }
        // one category with very many candidates (more than any one-byte index can address), the best one late
        if r.chance(1, 50) && !m.tag_models.is_empty() {
            let mut mm = m.clone();
            let n_c = *r.pick(&[255usize, 256, 257, 300]);
            {
                let tm = &mut mm.tag_models[0];
                let old_total: usize = tm.tags.iter().map(|c| if c.len() >= 2 { c.len() } else { 0 }).sum();
                tm.tags.push((0..n_c).map(|j| format!("R{j:03}")).collect());
                let hot = n_c - 1 - r.below(3);
                tm.bias.extend((0..n_c).map(|j| if j == hot { 9 } else { (j % 7) as i32 - 3 }));
                let _ = old_total;
                // every tag n-gram gets (zero) weights for the new classes, so that the model stays well-formed
                for g in tm.char_ngrams.iter_mut() {
                    for w in g.weights.iter_mut() {
                        w.1.extend(std::iter::repeat(0).take(n_c));
                    }
                }
                for g in tm.type_ngrams.iter_mut() {
                    for w in g.weights.iter_mut() {
                        w.1.extend(std::iter::repeat(0).take(n_c));
                    }
                }
            }
            let token = mm.tag_models[0].token.clone();
            let text = format!("{}{}{}", alpha[0], token, alpha[alpha.len() - 1]);
            writeln!(out, "H {CFG} {}^1{store} Fraw:{},pred:0,setb:0:W,fill,obs:BKGIC,tspec:0 c06", mm.to_text(), hexs(&text)).unwrap();
        }
        // candidate counts around multiples of the fixed vector length (8) whose tag n-gram weights are zero from some position
        // on (as trained models are: most classes get no weight from most n-grams), the decisive weight just before the zeros
        if r.chance(1, 8) && !m.tag_models.is_empty() {
            let mut mm = m.clone();
            let n_c = *r.pick(&[9usize, 15, 16, 17, 18, 23, 24, 25, 33]);
            let k = (*r.pick(&[1usize, 2, 3, 7, 8, 9, 10, 15, 16, 17, 20])).min(n_c - 1);   // non-zero entries: the first k of the new classes
            {
                let tm = &mut mm.tag_models[0];
                tm.tags.push((0..n_c).map(|j| format!("S{j:02}")).collect());
                // every other time the bias ends in zeros too (L1-regularised training leaves rare classes without any weight): a bias
                // vector longer than the fixed vector length whose entries from some position on are all zero
                let zero_tail = r.chance(1, 2);
                tm.bias.extend((0..n_c).map(|j| if zero_tail && j >= k { 0 } else { (j % 5) as i32 - 2 }));
                let mut first = true;
                for ws in tm.char_ngrams.iter_mut().map(|g| &mut g.weights).chain(tm.type_ngrams.iter_mut().map(|g| &mut g.weights)) {
                    for w in ws.iter_mut() {
                        // the first n-gram decides: its largest weight sits on the last non-zero position
                        w.1.extend((0..n_c).map(|j| if j >= k { 0 } else if first && j == k - 1 { 50 } else { (j % 3) as i32 - 1 }));
                        first = false;
                    }
                }
            }
            let token = mm.tag_models[0].token.clone();
            for _ in 0..2 {
                let text = format!("{}{}{}", gen_text_tags(&mut r, &mm, &alpha, 4), token, gen_text_tags(&mut r, &mm, &alpha, 4));
                let n = text.chars().count();
                writeln!(out, "H {CFG} {}^1{store} Fraw:{},pred:0,fill,obs:BKGIC,tspec:0 c06", mm.to_text(), hexs(&text)).unwrap();
                writeln!(out, "H {CFG} {}^1{store} Fraw:{},pred:0,setbs:{},fill,obs:BKGIC,tspec:0 c06", mm.to_text(), hexs(&text), "W".repeat(n - 1)).unwrap();
            }
        }
        // more than eight candidates with suffix-related tag n-grams at one relative position
        if r.chance(1, 12) && alpha.len() >= 2 {
            let (tm, text) = suffix_tag_case(&mut r, &alpha);
            let mut mm = m.clone();
            mm.tag_models.retain(|x| x.token != tm.token);
            mm.tag_models.push(tm);
            let n = text.chars().count();
            let labels: String = (0..n - 1).map(|_| 'W').collect();
            writeln!(out, "H {CFG} {}^1{store} Fraw:{},pred:0,setbs:{labels},fill,obs:BKGIC,tspec:0 c06", mm.to_text(), hexs(&text)).unwrap();
        }
        // a long text (positions beyond 255, many tokens)
        if r.chance(1, 60) {
            let mut text = String::new();
            while text.chars().count() < 270 {
                text.push_str(&gen_text_tags(&mut r, &m, &alpha, 14));
            }
            writeln!(out, "H {CFG} {mt}^1{store} Fraw:{},pred:0,fill,obs:BKGIC,tspec:0 c06", hexs(&text)).unwrap();
        }
        // the same text predicted first by another tag-predicting model over the same alphabet (more / fewer patterns):
        // the tags must be those of the model that predicted last
        let m3 = thinned(&m);
        let text = gen_text_tags(&mut r, &m, &alpha, 14);
        writeln!(out, "H {CFG} {mt}^1{store}!{}^11 Fraw:{},pred:0,pred:1,fill,obs:BKGIC,tspec:1 c06", m3.to_text(), hexs(&text)).unwrap();
        writeln!(out, "H {CFG} {mt}^1{store}!{}^11 Fraw:{},pred:1,pred:0,fill,obs:BKGIC,tspec:0 c06", m3.to_text(), hexs(&text)).unwrap();
    }
}

/// C08: a used sentence behaves like a fresh one. History ops are simulated on the real code while generating so that
/// indices are valid and `fill` is only issued where the documentation allows it (predictor built with predict_tags).
pub fn gen_c08(out: &mut dyn Write, thorough: bool, seed: u64) {
    use crate::model::{gen_tag_models, gen_text_tags};
    use crate::pred::build_pred;
    let mut r = Rng::new(seed ^ 0xC08);
    let opts = GenOpts { windows: &[1, 2, 3, 4, 9], max_ngrams: 5, max_words: 3, max_word_len: 4 };
    let n_groups = if thorough { 4000 } else { 150 };
    let per_group = if thorough { 12 } else { 8 };
    for group_no in 0..n_groups {
        // five predictors: A tags+scores, B another model without tag prediction, C tags without scores, D tag prediction on a model without tag models, E see below
        let (mut m1, alpha) = gen_model(&mut r, &opts);
        gen_tag_models(&mut r, &mut m1, &alpha, 3);
        let (m2, _) = gen_model(&mut r, &opts);
        // E: a second tag-predicting model over the SAME alphabet with fewer patterns (a thinned copy of m1 with other
        // weights): positions where E matches nothing must not inherit the scorer states that A or C left there
        let m3 = thinned(&m1);
        let specs = vec![
            format!("{}^11", m1.to_text()),
            format!("{}^00", m2.to_text()),
            format!("{}^10", m1.to_text()),
            format!("{}^11", m2.to_text()),
            format!("{}^11", m3.to_text()),
        ];
        let can_fill = [true, false, true, true, true];
        let built: Vec<_> = specs.iter().map(|s| build_pred(s).1).collect();
        if built.iter().any(|b| b.is_err()) {
            continue;
        }
        let preds: Vec<vaporetto::Predictor> = built.into_iter().map(|b| b.unwrap()).collect();
        // targeted: one predictor, the same token in different right-hand contexts, in both orders (nothing a predictor
        // learns from one text may leak into the next); the boundary model is the bias alone, so no pattern ends anywhere
        if group_no < (if thorough { 60 } else { 10 }) {
            use crate::model::{AbsTagModel, TagNgram};
            let g = *r.pick(&["c", "d", "bc", "cd"]);
            let rel = (g.chars().count() + r.below(2)) as u8;
            let tm = AbsTagModel {
                token: "b".into(),
                tags: vec![vec!["X".into(), "Y".into()], vec!["p".into()]],
                char_ngrams: vec![TagNgram { ngram: g.to_string(), weights: vec![(rel, vec![0, r.range(2, 9) as i32])] }],
                type_ngrams: vec![],
                bias: vec![1, 0],
            };
            let m4 = AbsModel { char_w: 3, type_w: 3, bias: 1, tag_models: vec![tm], ..Default::default() };
            let texts = ["bc", "bd", "bcd", "abdc", "bcc"];
            for a in texts {
                for b in texts {
                    if a != b {
                        writeln!(out, "H {CFG} {}^10 raw:{},pred:0,fill,raw:{},pred:0,fill,obs c08", m4.to_text(), hexs(a), hexs(b)).unwrap();
                    }
                }
            }
        }
        // targeted: an update with the SAME text as before (any "nothing changed" shortcut must still reset everything)
        for k in [0usize, 1, 4] {
            let x = gen_text_tags(&mut r, &m1, &alpha, 10);
            let fill = if can_fill[k] { ",fill" } else { "" };
            writeln!(out, "H {CFG} {} raw:{h},pred:{k}{fill},raw:{h},obs c08", specs.join("!"), h = hexs(&x)).unwrap();
            writeln!(out, "H {CFG} {} raw:{h},pred:{k}{fill},raw:{h},fill,obs c08", specs.join("!"), h = hexs(&x)).unwrap();
        }
        // targeted: the same text predicted by two different tag-predicting models in a row, tags filled by the second
        for (a, b) in [(0, 4), (4, 0), (2, 4), (4, 3)] {
            let x = gen_text_tags(&mut r, &m1, &alpha, 12);
            writeln!(out, "H {CFG} {} raw:{},pred:{a},pred:{b},fill,obs c08", specs.join("!"), hexs(&x)).unwrap();
        }
        // long reuse: one sentence object predicted hundreds of times (a long text, then n short ones, then another long
        // one that is tagged) — counters, epochs and caches inside the sentence must not wrap or leak (n around 2^8; 2^16 in
        // the thorough tier)
        if group_no < (if thorough { 24 } else { 6 }) {
            let mut counts = vec![254usize, 255, 255, 255, 255, 255, 255, 256, 257];
            if thorough && group_no == 0 {
                counts.extend([65535, 65536]);
            }
            for n in counts {
                let long1 = gen_text_tags(&mut r, &m1, &alpha, 14);
                // the second long text: either unrelated, or the first one with one character replaced by a character no
                // pattern contains (whatever was recorded for that position must not survive)
                let long2 = if r.chance(1, 4) || long1.chars().count() < 5 {
                    gen_text_tags(&mut r, &m1, &alpha, 14)
                } else {
                    let n1 = long1.chars().count();
                    let at = r.range(3, n1 as i64 - 1) as usize;
                    long1.chars().enumerate().map(|(i, c)| if i == at { '〓' } else { c }).collect()
                };
                let k = *r.pick(&[0usize, 2, 4]);
                let mut ops = vec![format!("raw:{}", hexs(&long1)), format!("pred:{k}")];
                for i in 0..n {
                    let short: String = gen_text_tags(&mut r, &m1, &alpha, 3).chars().take(1 + i % 3).collect();
                    ops.push(format!("raw:{}", hexs(&short)));
                    ops.push(format!("pred:{k}"));
                }
                ops.push(format!("raw:{}", hexs(&long2)));
                ops.push(format!("pred:{k}"));
                ops.push("fill".into());
                ops.push("obs".into());
                writeln!(out, "H {CFG} {} {} c08", specs.join("!"), ops.join(",")).unwrap();
            }
        }
        // long texts on one sentence object: a long text, then a variant of it (one character replaced, so that positions that
        // had a match have none), tagged — lengths around the word sizes of bitmaps and blocks
        if group_no < (if thorough { 40 } else { 8 }) {
            for &len in &[33usize, 40, 40, 65, 70, 70, 129, 257] {
                let mut long1 = String::new();
                while long1.chars().count() < len {
                    long1.push_str(&gen_text_tags(&mut r, &m1, &alpha, 14));
                }
                let long1: String = long1.chars().take(len).collect();
                let at = r.range(1, len as i64 - 1) as usize;
                let long2: String = long1.chars().enumerate().map(|(i, c)| if i == at { '〓' } else { c }).collect();
                let k = *r.pick(&[0usize, 2, 4]);
                writeln!(out, "H {CFG} {} raw:{},pred:{k},fill,raw:{},pred:{k},fill,obs c08", specs.join("!"), hexs(&long1), hexs(&long2)).unwrap();
            }
        }
        for _ in 0..per_group {
            let mut s = vaporetto::Sentence::default();
            let mut ops: Vec<String> = vec![];
            let mut cur: Option<usize> = None;
            let len = r.range(0, if thorough { 12 } else { 8 }) as usize;
            // the history is built by executing it on the real code (indices must stay in range); when the real code panics
            // here, the history up to and including the panicking call IS the case: it is emitted and replayed by `run`
            let shadow = crate::util::catch(|| {
            for _ in 0..len {
                match r.below(11) {
                    0 | 1 | 2 => {
                        let kind = r.below(3);
                        let text = if r.chance(1, 4) {
                            ["", "a\0b", " a", "a  b", "a|", "\\"][r.below(6)].to_string()
                        } else {
                            let base = gen_text_tags(&mut r, &m1, &alpha, 8);
                            match kind {
                                0 => base,
                                1 => base.chars().map(|c| if c == ' ' || c == '/' || c == '\\' { format!("\\{c}") } else { c.to_string() }).collect::<Vec<_>>().join(if r.chance(1, 2) { " " } else { "" }) + if r.chance(1, 3) { "/t1/t2" } else { "" },
                                _ => base.chars().map(|c| c.to_string()).collect::<Vec<_>>().join(*r.pick(&["-", "|", " "])) + if r.chance(1, 3) { "/p" } else { "" },
                            }
                        };
                        let name = ["raw", "tok", "part"][kind];
                        ops.push(format!("{name}:{}", hexs(&text)));
                        let _ = match kind {
                            0 => s.update_raw(text.clone()),
                            1 => s.update_tokenized(&text),
                            _ => s.update_partial_annotation(&text),
                        };
                        cur = None;
                    }
                    3 | 4 => {
                        let k = r.below(preds.len());
                        ops.push(format!("pred:{k}"));
                        preds[k].predict(&mut s);
                        cur = Some(k);
                    }
                    5 => {
                        if cur.map_or(true, |k| can_fill[k]) {
                            ops.push("fill".into());
                            s.fill_tags();
                        }
                    }
                    6 => {
                        let k = r.below(4);
                        s.reset_tags(k);
                        ops.push(format!("reset:{k}"));
                    }
                    7 => {
                        let nb = s.boundaries().len();
                        if nb > 0 {
                            let i = r.below(nb);
                            let b = *r.pick(&['N', 'W', 'U']);
                            s.boundaries_mut()[i] = crate::sent::label_of(b).unwrap();
                            ops.push(format!("setb:{i}:{b}"));
                        }
                    }
                    8 => {
                        let nt = s.tags().len();
                        if nt > 0 {
                            let i = r.below(nt);
                            if r.chance(1, 3) {
                                s.tags_mut()[i] = None;
                                ops.push(format!("sett:{i}:~"));
                            } else {
                                s.tags_mut()[i] = Some("z".into());
                                ops.push(format!("sett:{i}:{}", hexs("z")));
                            }
                        }
                    }
                    9 => {
                        use vaporetto_rules::{sentence_filters::*, SentenceFilter};
                        match r.below(4) {
                            0 => {
                                let t = r.range(1, 6) as u8;
                                KyteaWsConstFilter::new(crate::sent::type_of(t).unwrap()).filter(&mut s);
                                ops.push(format!("filter:ws:{t}"));
                            }
                            1 => {
                                SplitLinebreaksFilter.filter(&mut s);
                                ops.push("filter:lb".into());
                            }
                            2 => {
                                let cl = crate::filt::cluster_lengths(s.as_raw_text());
                                ConcatGraphemeClustersFilter.filter(&mut s);
                                ops.push(format!("filter:gc:{}", cl.iter().map(|x| x.to_string()).collect::<Vec<_>>().join(".")));
                            }
                            _ => {
                                let surf: String = s.as_raw_text().chars().take(1).collect();
                                let rs = format!("{}={}+~+{}", hexs(&surf), hexs("R0"), hexs("R2"));
                                PatternMatchTagger::new(crate::sent::parse_rules(&rs).unwrap()).filter(&mut s);
                                ops.push(format!("filter:tag:{rs}"));
                            }
                        }
                    }
                    _ => ops.push("obs".into()),
                }
            }
            });
            if shadow.is_err() {
                ops.push("obs".into());
                writeln!(out, "H {CFG} {} {} c08", specs.join("!"), ops.join(",")).unwrap();
                continue;
            }
            // the probe: update_raw(x); predict; [fill_tags]; observe
            let x = gen_text_tags(&mut r, &m1, &alpha, 12);
            let k = r.below(preds.len());
            ops.push(format!("raw:{}", hexs(&x)));
            ops.push(format!("pred:{k}"));
            if can_fill[k] && r.chance(2, 3) {
                ops.push("fill".into());
            }
            ops.push("obs".into());
            writeln!(out, "H {CFG} {} {} c08", specs.join("!"), ops.join(",")).unwrap();
        }
    }
}

/// C13: the same cases for every feature build; `@` stands for the build's cfg letters
pub fn gen_c13(out: &mut dyn Write, thorough: bool, seed: u64) {
    use crate::model::{gen_tag_models, gen_text_tags};
    let mut r = Rng::new(seed ^ 0xC13);
    let opts = GenOpts { windows: &[1, 2, 3, 4, 5, 8, 9, 40], max_ngrams: 6, max_words: 4, max_word_len: 12 };
    for (k, (m, texts)) in sparse_wide(thorough).into_iter().enumerate() {
        let mt = m.to_text();
        for t in texts.iter().skip(k % 2).step_by(2) {
            writeln!(out, "F @ {mt} 0 {}", hexs(t)).unwrap();
        }
    }
    // entries that cancel their suffixes: every scorer variant must agree on them (the cached type scorer never merges,
    // the automaton scorers do)
    for (m, texts) in cancelling(&mut r, thorough) {
        let mt = m.to_text();
        for t in texts {
            writeln!(out, "F @ {mt} 0 {}", hexs(&t)).unwrap();
        }
    }
    let n_models = if thorough { 3000 } else { 300 };
    for i in 0..n_models {
        let (mut m, alpha) = gen_model(&mut r, &opts);
        let with_tags = i % 2 == 0;
        if with_tags {
            gen_tag_models(&mut r, &mut m, &alpha, 3);
        }
        let mut extra_text: Option<String> = None;
        if with_tags && i % 6 == 0 && alpha.len() >= 2 {
            let (tm, text) = suffix_tag_case(&mut r, &alpha);
            m.tag_models.retain(|x| x.token != tm.token);
            m.tag_models.push(tm);
            // the token has to come out as a token of its own: a bias that breaks everywhere, no boundary patterns
            m.char_ngrams.clear();
            m.type_ngrams.clear();
            m.dict.clear();
            m.bias = 5;
            extra_text = Some(text);
        }
        let mt = m.to_text();
        if let Some(t) = &extra_text {
            writeln!(out, "F @ {mt} 1 {}", hexs(t)).unwrap();
        }
        for _ in 0..4 {
            let text = if with_tags { gen_text_tags(&mut r, &m, &alpha, 20) } else { gen_text(&mut r, &m, &alpha, 30) };
            writeln!(out, "F @ {mt} {} {}", if with_tags { 1 } else { 0 }, hexs(&text)).unwrap();
        }
    }
}

/// C14: a predictor and its serialize -> deserialize round trip (all scorer variants), with trailing bytes
pub fn gen_c14(out: &mut dyn Write, thorough: bool, seed: u64) {
    use crate::model::{gen_tag_models, gen_text_tags};
    // very large predictors (oracle-only): more than 2^16 dictionary words, and a serialised form beyond 16 MiB
    writeln!(out, "BIG BD 70000 {seed} c14").unwrap();
    writeln!(out, "BIG BD {} {seed} c14", if thorough { 600000 } else { 300000 }).unwrap();
    use crate::pred::build_pred;
    use crate::util::hex;
    let mut r = Rng::new(seed ^ 0xC14);
    // windows 1..3 use the type-score cache (without tags), 4+ the automaton; weight vectors of 8 vs 9 entries
    let opts = GenOpts { windows: &[1, 2, 3, 4, 5, 8, 9], max_ngrams: 6, max_words: 4, max_word_len: 9 };
    // sparse weight vectors at wide windows through the round trip (a serialised vector must come back in a form that scores alike)
    for (k, (m, texts)) in sparse_wide(thorough).into_iter().enumerate() {
        let mt = m.to_text();
        let specs = format!("{mt}^00!{mt}^00s-");
        for t in texts.iter().skip(k % 3).step_by(3) {
            writeln!(out, "H {CFG} {specs} Fraw:{h},pred:0,obs,Fraw:{h},pred:1,obs c14", h = hexs(t)).unwrap();
        }
    }
    let n_models = if thorough { 2000 } else { 300 };
    for i in 0..n_models {
        let (mut m, alpha) = gen_model(&mut r, &opts);
        let with_tags = i % 3 != 0;
        if with_tags {
            gen_tag_models(&mut r, &mut m, &alpha, 4);
        }
        // a model file may name one token in two tag models (two files merged; the trainer never does it): the later one counts, and
        // the tokens listed behind the first occurrence keep their own tag n-grams
        if with_tags && i % 7 == 3 && !m.tag_models.is_empty() {
            let mut dup = m.tag_models[0].clone();
            for b in dup.bias.iter_mut() {
                *b = -*b + 1;
            }
            for g in dup.char_ngrams.iter_mut() {
                for w in g.weights.iter_mut() {
                    for x in w.1.iter_mut() {
                        *x = -*x;
                    }
                }
            }
            let at = if m.tag_models.len() >= 2 && i % 2 == 1 { m.tag_models.len() } else { 1 };
            m.tag_models.insert(at, dup);
        }
        // weight vectors with trailing and inner zeros
        for (_, w) in m.char_ngrams.iter_mut() {
            if r.chance(1, 2) {
                let n = w.len();
                for x in w.iter_mut().skip(r.below(n)) {
                    *x = 0;
                }
            }
            if r.chance(1, 3) && !w.is_empty() {
                let k = r.below(w.len());
                w[k] = 0;
            }
        }
        if i % 5 == 1 {
            m.dict = trained_like_dict(&mut r, &alpha);
        }
        let mt = m.to_text();
        let pt = if with_tags || r.chance(1, 2) { "1" } else { "0" };
        let st = if pt == "1" && r.chance(1, 2) { "1" } else { "0" };
        let trail: Vec<u8> = (0..r.below(6)).map(|_| r.below(256) as u8).collect();
        let specs = format!("{mt}^{pt}{st}!{mt}^{pt}{st}s{}", if trail.is_empty() { "-".to_string() } else { hex(&trail) });
        for _ in 0..3 {
            let text = if with_tags { gen_text_tags(&mut r, &m, &alpha, 16) } else { gen_text(&mut r, &m, &alpha, 24) };
            let fill = if pt == "1" { ",fill" } else { "" };
            writeln!(out, "H {CFG} {specs} Fraw:{h},pred:0{fill},obs,Fraw:{h},pred:1{fill},obs c14", h = hexs(&text)).unwrap();
        }
        // the outer record of the real bytes
        if let Ok(p) = build_pred(&format!("{mt}^{pt}0")).1 {
            if let Ok(mut bytes) = p.serialize_to_vec() {
                bytes.extend_from_slice(&trail);
                let ntags = if pt == "1" { m.tag_models.iter().map(|t| t.tags.len()).max().unwrap_or(0) } else { 0 };
                let tp = if pt == "1" {
                    let mut toks: Vec<&String> = m.tag_models.iter().map(|t| &t.token).collect();
                    toks.sort();
                    toks.dedup();
                    toks.len().to_string()
                } else {
                    "-".to_string()
                };
                writeln!(out, "E {} {} {} {} {} c14", hex(&bytes), m.bias, ntags, tp, trail.len()).unwrap();
            }
        }
    }
}

/// C18: the union of the prediction / tagging / filtering / writing cases, judged only on "no panic": the harness is built
/// with debug assertions and overflow checks, so every `debug_assert!` guarding an unchecked access and std's own
/// unsafe-precondition checks fire as panics
pub fn gen_c18(out: &mut dyn Write, thorough: bool, seed: u64) {
    let mut buf: Vec<u8> = vec![];
    gen_c08(&mut buf, thorough, seed ^ 0x18);
    gen_c06(&mut buf, thorough, seed ^ 0x1806);
    gen_c14(&mut buf, thorough, seed ^ 0x1814);
    crate::gen_sent::gen_c15(&mut buf, false, seed ^ 0x1815);
    for line in String::from_utf8_lossy(&buf).lines() {
        if line.starts_with("E ") {
            continue;
        }
        let mut toks: Vec<&str> = line.split(' ').collect();
        if matches!(toks.last(), Some(&"c08") | Some(&"c06") | Some(&"c14") | Some(&"c15")) {
            toks.pop();
        }
        writeln!(out, "{} c18", toks.join(" ")).unwrap();
    }
}

/// C18 under Miri (thorough tier): the C18 cases with small models (windows <= 2, short lines), a few dozen
pub fn gen_c18_miri(out: &mut dyn Write, seed: u64) {
    let mut buf: Vec<u8> = vec![];
    gen_c18(&mut buf, false, seed);
    let (mut n_h, mut n_s) = (0, 0);
    for line in String::from_utf8_lossy(&buf).lines() {
        if line.len() > 700 {
            continue;
        }
        let small = line.split(|c| c == ' ' || c == '!').filter(|t| t.starts_with('M')).all(|t| {
            let mut it = t[1..].split('.');
            let cw: usize = it.next().and_then(|x| x.parse().ok()).unwrap_or(99);
            let tw: usize = it.next().and_then(|x| x.parse().ok()).unwrap_or(99);
            cw <= 2 && tw <= 2
        });
        if line.starts_with("H ") && small && n_h < 100 && line.contains(";g") {
            n_h += 1;
            writeln!(out, "{line}").unwrap();
        } else if line.starts_with("S ") && n_s < 30 && line.len() > 60 {
            n_s += 1;
            writeln!(out, "{line}").unwrap();
        }
    }
}
