//! C20: the `predict` and `evaluate` command-line tools against the library pipeline.
//!   CP <flags>:<wsconst|-> <model> <hex stdin> <clusters>   flags ⊆ {n no-norm, t predict-tags, s scores, g tag-scores}
//!   CE <flags>:<wsconst|-> <model> <hex stdin> <clusters>   flags ⊆ {n no-norm, t predict-tags, w word metric}
//! `clusters`: for every input line the grapheme-cluster lengths of the text the `G` filter sees (`/`-separated, `_` = none).
//! Response: `<exit code>:<hex stdout>` (CP) / `<exit code>:<counts>` (CE).
use unicode_segmentation::UnicodeSegmentation;
use vaporetto::{CharacterBoundary as CB, CharacterType, Predictor, Sentence};
use vaporetto_rules::{
    sentence_filters::{ConcatGraphemeClustersFilter, KyteaWsConstFilter},
    string_filters::KyteaFullwidthFilter,
    SentenceFilter, StringFilter,
};

use crate::cli::{run_tool, scratch_dir, write_zst};
use crate::model::AbsModel;
use crate::util::{catch, hex, hexs, unhexs, Rng};

/// long inputs are shown by their length and their beginning
fn clip(s: &str) -> String {
    if s.chars().count() <= 300 {
        format!("{s:?}")
    } else {
        format!("{:?}… ({} bytes)", s.chars().take(120).collect::<String>(), s.len())
    }
}

/// two long outputs are shown around their first difference
fn clip_diff(a: &str, b: &str) -> (String, String) {
    if a.len() <= 600 && b.len() <= 600 {
        return (format!("{a:?}"), format!("{b:?}"));
    }
    let (ca, cb): (Vec<char>, Vec<char>) = (a.chars().collect(), b.chars().collect());
    let k = ca.iter().zip(&cb).position(|(x, y)| x != y).unwrap_or(ca.len().min(cb.len()));
    let from = k.saturating_sub(60);
    let show = |c: &Vec<char>| format!("…{:?}… (character {k} of {})", c.iter().skip(from).take(160).collect::<String>(), c.len());
    (show(&ca), show(&cb))
}

fn lines_of(stdin: &str) -> Vec<String> {
    // std::io::BufRead::lines
    let mut v: Vec<String> = stdin.split('\n').map(|l| l.strip_suffix('\r').unwrap_or(l).to_string()).collect();
    if stdin.ends_with('\n') || stdin.is_empty() {
        v.pop();
    }
    v
}

fn filters_of(ws: &str) -> Vec<Box<dyn SentenceFilter>> {
    ws.chars()
        .filter_map(|c| -> Option<Box<dyn SentenceFilter>> {
            Some(match c {
                'D' => Box::new(KyteaWsConstFilter::new(CharacterType::Digit)),
                'R' => Box::new(KyteaWsConstFilter::new(CharacterType::Roman)),
                'H' => Box::new(KyteaWsConstFilter::new(CharacterType::Hiragana)),
                'T' => Box::new(KyteaWsConstFilter::new(CharacterType::Katakana)),
                'K' => Box::new(KyteaWsConstFilter::new(CharacterType::Kanji)),
                'O' => Box::new(KyteaWsConstFilter::new(CharacterType::Other)),
                'G' => Box::new(ConcatGraphemeClustersFilter),
                _ => return None,
            })
        })
        .collect()
}

fn esc(s: &str, out: &mut String) {
    for c in s.chars() {
        if c == ' ' || c == '\\' || c == '/' {
            out.push('\\');
        }
        out.push(c);
    }
}

/// what `predict` must print, computed with the library on a fresh sentence per line
fn expected_predict(m: &AbsModel, flags: &str, ws: &str, stdin: &str) -> Result<String, String> {
    let (no_norm, tags, scores, tag_scores) = (flags.contains('n'), flags.contains('t'), flags.contains('s'), flags.contains('g'));
    let mut p = Predictor::new(m.load()?, tags).map_err(|e| e.to_string())?;
    p.store_tag_scores(tag_scores);
    let filters = filters_of(ws);
    let mut out = String::new();
    for line in lines_of(stdin) {
        let input = if no_norm { line.clone() } else { KyteaFullwidthFilter.filter(&line) };
        let Ok(mut s) = Sentence::from_raw(input) else {
            out.push('\n');
            continue;
        };
        p.predict(&mut s);
        filters.iter().for_each(|f| f.filter(&mut s));
        if tags {
            s.fill_tags();
        }
        let orig: Vec<char> = line.chars().collect();
        let mut first = true;
        for t in s.iter_tokens() {
            if !first {
                out.push(' ');
            }
            first = false;
            let surf: String = orig[t.start()..t.end()].iter().collect();
            esc(&surf, &mut out);
            let ts = t.tags();
            let k = ts.iter().rposition(|x| x.is_some()).map_or(0, |x| x + 1);
            for tag in &ts[..k] {
                out.push('/');
                if let Some(tag) = tag {
                    esc(tag, &mut out);
                }
            }
        }
        out.push('\n');
        if scores {
            let cs: Vec<char> = s.as_raw_text().chars().collect();
            for (i, sc) in s.boundary_scores().iter().enumerate() {
                out.push_str(&format!("{i}:{}{} {sc}\n", cs[i], cs[i + 1]));
            }
            out.push('\n');
        }
        if tag_scores && tags {
            for t in s.iter_tokens() {
                out.push_str(t.surface());
                for cands in t.tag_candidates() {
                    out.push('\t');
                    out.push_str(&cands.iter().map(|(t, x)| format!("{t}:{x}")).collect::<Vec<_>>().join(","));
                }
                out.push('\n');
            }
            out.push('\n');
        }
    }
    Ok(out)
}

fn tool_args(model: &std::path::Path, flags: &str, ws: &str, eval: bool) -> Vec<String> {
    let mut a = vec!["--model".to_string(), model.display().to_string()];
    if flags.contains('n') {
        a.push("--no-norm".into());
    }
    if flags.contains('t') {
        a.push("--predict-tags".into());
    }
    if !eval && flags.contains('s') {
        a.push("--scores".into());
    }
    if !eval && flags.contains('g') {
        a.push("--tag-scores".into());
    }
    if eval {
        a.push("--metric".into());
        a.push(if flags.contains('w') { "word".into() } else { "char".into() });
    }
    for c in ws.chars() {
        a.push("--wsconst".into());
        a.push(c.to_string());
    }
    a
}

type Row = Vec<Option<String>>;

/// the library pipeline for one `evaluate` line: reference and system boundaries and per-character tag rows
fn eval_line(p: &Predictor, filters: &[Box<dyn SentenceFilter>], no_norm: bool, tags: bool, line: &str) -> Result<(Vec<CB>, Vec<Row>, Vec<CB>, Vec<Row>), String> {
    let r = Sentence::from_tokenized(line).map_err(|e| e.to_string())?;
    let rows = |s: &Sentence| -> Vec<Row> {
        let n = s.n_tags();
        (0..=s.boundaries().len()).map(|i| s.tags()[i * n..(i + 1) * n].iter().map(|t| t.as_ref().map(|x| x.to_string())).collect()).collect()
    };
    let ref_t = rows(&r);
    let text = if no_norm { r.as_raw_text().to_string() } else { KyteaFullwidthFilter.filter(r.as_raw_text()) };
    let mut s = Sentence::from_raw(text).map_err(|e| e.to_string())?;
    p.predict(&mut s);
    filters.iter().for_each(|f| f.filter(&mut s));
    if tags {
        s.fill_tags();
    }
    Ok((r.boundaries().to_vec(), ref_t, s.boundaries().to_vec(), rows(&s)))
}

/// expected stdout of `evaluate` and the integer counts
fn expected_evaluate(m: &AbsModel, flags: &str, ws: &str, stdin: &str) -> Result<(String, String), String> {
    let (no_norm, tags, word) = (flags.contains('n'), flags.contains('t'), flags.contains('w'));
    let p = Predictor::new(m.load()?, tags).map_err(|e| e.to_string())?;
    let filters = filters_of(ws);
    let mut results = vec![];
    for line in lines_of(stdin) {
        if line.is_empty() {
            continue;
        }
        results.push(eval_line(&p, &filters, no_norm, tags, &line)?);
    }
    if !word {
        let (mut tp, mut tn, mut fp, mut fn_) = (0i32, 0i32, 0i32, 0i32);
        for (rb, _, sb, _) in &results {
            for (r, h) in rb.iter().zip(sb) {
                if r == h {
                    if *h == CB::WordBoundary { tp += 1 } else { tn += 1 }
                } else if *h == CB::WordBoundary {
                    fp += 1
                } else {
                    fn_ += 1
                }
            }
        }
        let precision = f64::from(tp) / f64::from(tp + fp);
        let recall = f64::from(tp) / f64::from(tp + fn_);
        let f1 = 2. * precision * recall / (precision + recall);
        Ok((format!("Precision: {precision}\nRecall: {recall}\nF1: {f1}\nTP: {tp}, TN: {tn}, FP: {fp}, FN: {fn_}\n"), format!("tp={tp},tn={tn},fp={fp},fn={fn_}")))
    } else {
        // a token is correct iff both of its ends are reference boundaries, no boundary lies inside in either
        // segmentation, and its tag row equals the reference tag row (Nagata 1994)
        let (mut cor, mut sys, mut rf) = (0i32, 0i32, 0i32);
        for (rb, rt, sb, st) in &results {
            let n = rb.len() + 1;
            let ends = |b: &[CB]| -> Vec<usize> { b.iter().enumerate().filter(|(_, &x)| x == CB::WordBoundary).map(|(i, _)| i + 1).chain([n]).collect() };
            let (re, se) = (ends(rb), ends(sb));
            sys += se.len() as i32;
            rf += re.len() as i32;
            let mut start = 0;
            for &e in &se {
                let r_start_ok = start == 0 || re.contains(&start);
                if r_start_ok && re.contains(&e) && !re.iter().any(|&x| x > start && x < e) && rt[e - 1] == st[e - 1] {
                    cor += 1;
                }
                start = e;
            }
        }
        let precision = f64::from(cor) / f64::from(sys);
        let recall = f64::from(cor) / f64::from(rf);
        let f1 = 2. * precision * recall / (precision + recall);
        Ok((format!("Precision: {precision}\nRecall: {recall}\nF1: {f1}\n"), format!("cor={cor},sys={sys},ref={rf}")))
    }
}

/// `CPX <flags>:<wsconst|-> <model> <hex of complete, valid input lines> <hex of the bytes that follow>` (oracle-only, run inside
/// `BIG`): the bytes that follow start with a line that is not valid UTF-8, so the tool cannot go on — but the lines it had
/// already read must have been answered, exactly as for the valid prefix alone, and the failure must not be a panic
fn run_cpx(toks: &[&str], fails: &mut Vec<(String, String)>) -> String {
    let ["CPX", fl, m, h, tail, ..] = toks else { return "bad-case".into() };
    let (Some(m), Some(prefix), Some(tail)) = (AbsModel::parse(m), unhexs(h), crate::util::unhex(tail)) else { return "bad-case".into() };
    let (flags, ws) = fl.split_once(':').unwrap_or((fl, "-"));
    let ws = if ws == "-" { "" } else { ws };
    let dir = scratch_dir("c20x");
    let mp = dir.join("model.zst");
    write_zst(&mp, &m.to_bytes());
    let mut stdin = prefix.as_bytes().to_vec();
    stdin.extend_from_slice(&tail);
    let o = run_tool("predict", &tool_args(&mp, flags, ws, false), &stdin);
    let _ = std::fs::remove_dir_all(&dir);
    if o.stderr.contains("panicked") {
        fails.push(("C20".into(), format!("predict {fl} panicked on input that stops being UTF-8 after {} lines: {}", prefix.lines().count(), o.stderr.lines().find(|l| l.contains("panicked")).unwrap_or(""))));
    }
    if let Ok(Ok(exp)) = catch(|| expected_predict(&m, flags, ws, &prefix)) {
        if !o.stdout.starts_with(exp.as_bytes()) {
            let got = String::from_utf8_lossy(&o.stdout).to_string();
            fails.push(("C20".into(), format!(
                "predict {fl}: the input is {} valid lines ({}) followed by bytes that are not UTF-8; the answers to the valid lines are {} bytes, but the tool's output ({} bytes, exit {:?}) does not begin with them: printed {}, expected to begin with {}",
                prefix.lines().count(), clip(&prefix), exp.len(), o.stdout.len(), o.code, clip_diff(&got, &exp).0, clip_diff(&got, &exp).1)));
        }
    }
    "big".into()
}

pub fn run(toks: &[&str], fails: &mut Vec<(String, String)>) -> String {
    if toks.first() == Some(&"CPX") {
        return run_cpx(toks, fails);
    }
    let c20 = toks.last() == Some(&"c20");
    let (kind, fl, m, h) = match toks {
        [k @ ("CP" | "CE"), fl, m, h, _cl, ..] => (*k, *fl, *m, *h),
        _ => return "bad-case".into(),
    };
    let (Some(m), Some(stdin)) = (AbsModel::parse(m), unhexs(h)) else { return "bad-case".into() };
    let (flags, ws) = fl.split_once(':').unwrap_or((fl, "-"));
    let ws = if ws == "-" { "" } else { ws };
    let dir = scratch_dir("c20");
    let mp = dir.join("model.zst");
    write_zst(&mp, &m.to_bytes());
    let eval = kind == "CE";
    let o = run_tool(if eval { "evaluate" } else { "predict" }, &tool_args(&mp, flags, ws, eval), stdin.as_bytes());
    let _ = std::fs::remove_dir_all(&dir);
    let code = o.code.unwrap_or(134);
    let stdout = String::from_utf8_lossy(&o.stdout).to_string();
    if !eval {
        if c20 {
            match catch(|| expected_predict(&m, flags, ws, &stdin)).unwrap_or_else(|e| {
                fails.push(("C20".into(), format!("the library pipeline itself panicked for predict {fl} on {}: {e}", clip(&stdin))));
                Err(e)
            }) {
                Ok(exp) => {
                    if code != 0 {
                        fails.push(("C20".into(), format!("predict {fl} exited with {code} on input {}: {}", clip(&stdin), o.stderr.lines().rev().find(|l| l.contains("panicked") || l.contains("Error")).unwrap_or(""))));
                    } else if stdout != exp {
                        fails.push(("C20".into(), format!("predict {fl} on {} printed {}, the library pipeline gives {}", clip(&stdin), clip_diff(&stdout, &exp).0, clip_diff(&stdout, &exp).1)));
                    }
                }
                Err(_) => {}
            }
        }
        format!("{code}:{}", if stdout.is_empty() { String::new() } else { hex(stdout.as_bytes()) })
    } else {
        match catch(|| expected_evaluate(&m, flags, ws, &stdin)).unwrap_or_else(Err) {
            Ok((text, counts)) => {
                if c20 && (code != 0 || stdout != text) {
                    fails.push(("C20".into(), format!("evaluate {fl} on {} printed {stdout:?} (exit {code}), the library's predictions give {text:?}", clip(&stdin))));
                }
                if code == 0 && stdout == text {
                    // the three floats as the TOOL printed them, parsed back (Rust's decimal output round-trips) and shown as bit
                    // patterns: the model computes them with its exact binary64 arithmetic
                    let bits = |key: &str| -> String {
                        stdout
                            .lines()
                            .find_map(|l| l.strip_prefix(key))
                            .and_then(|v| v.trim().parse::<f64>().ok())
                            .map(|x| if x.is_nan() { "7ff8000000000000".to_string() } else { format!("{:016x}", x.to_bits()) })
                            .unwrap_or_else(|| "unparsable".into())
                    };
                    // … and as the decimal TEXT the tool printed (the model prints Rust's shortest round-trip representation itself)
                    let text = |key: &str| -> String { stdout.lines().find_map(|l| l.strip_prefix(key)).map(|v| v.to_string()).unwrap_or_else(|| "missing".into()) };
                    format!("0:{counts};P={},R={},F={};D={},{},{}", bits("Precision: "), bits("Recall: "), bits("F1: "), text("Precision: "), text("Recall: "), text("F1: "))
                } else {
                    format!("{code}:stdout={}", hex(stdout.as_bytes()))
                }
            }
            Err(_) => format!("{code}:"),
        }
    }
}

fn clusters_text(lines: &[String], no_norm: bool, tokenized: bool) -> String {
    let v: Vec<String> = lines
        .iter()
        .map(|l| {
            // real code is used to prepare the case: a panic here must not take the generator down (the case then runs
            // with an empty cluster list and `run` meets the same panic under its own catch)
            let t = catch(|| {
                let raw = if tokenized { Sentence::from_tokenized(l).map(|s| s.as_raw_text().to_string()).unwrap_or_default() } else { l.clone() };
                if no_norm { raw } else { KyteaFullwidthFilter.filter(&raw) }
            })
            .unwrap_or_default();
            let c: Vec<String> = t.graphemes(true).map(|g| g.chars().count().to_string()).collect();
            if c.is_empty() { "_".to_string() } else { c.join(".") }
        })
        .collect();
    if v.is_empty() { "-".into() } else { v.join("/") }
}

const UNITS: &[&str] = &["a", "b", "Z", "1", "９", "あ", "い", "カ", "ｶ", "漢", "字", "𠮷", "。", " ", "/", "\\", "-", "ab", "e\u{301}", "🇯🇵", "\0", "ｱﾞ", "ｶﾞ", "ﾊﾟ", "ｳﾞ", "｢", "－", "～", "ａ"];
/// characters the normaliser replaces by characters of the same UTF-8 length (and unaffected neighbours): a line
/// made of these keeps its byte length under normalisation although its text changes
const SAMELEN: &[&str] = &["｢", "｣", "－", "～", "､", "｡", "･", "\u{2015}", "\u{2500}", "\u{2013}", "あ", "漢", "カ"];


pub fn gen(out: &mut dyn std::io::Write, thorough: bool, seed: u64) {
    use crate::model::{gen_model, gen_tag_models, gen_text_tags, GenOpts};
    let mut r = Rng::new(seed ^ 0xC20);
    let opts = GenOpts { windows: &[1, 2, 3, 4], max_ngrams: 5, max_words: 3, max_word_len: 4 };
    let wss = ["-", "-", "D", "G", "DG", "KO", "RHT"];
    let n_models = if thorough { 400 } else { 16 };
    for i in 0..n_models {
        let (mut m, alpha) = gen_model(&mut r, &opts);
        if i % 4 != 3 {
            gen_tag_models(&mut r, &mut m, &alpha, 3);
        }
        let mt = m.to_text();
        // predict: every flag combination
        let mut lines: Vec<String> = vec![];
        for _ in 0..r.range(1, 6) {
            lines.push(match r.below(6) {
                0 => String::new(),
                1 => (0..r.range(1, 6)).map(|_| *r.pick(UNITS)).collect(),
                2 => (0..r.range(1, 6)).map(|_| *r.pick(SAMELEN)).collect(),
                _ => gen_text_tags(&mut r, &m, &alpha, 10),
            });
        }
        // neighbouring lines that are equal, or equal only after normalisation (width variants of one another): the tool
        // reuses its sentence objects from line to line, and each line must still come out with its OWN characters
        if i % 2 == 0 {
            let base: String = match r.below(3) {
                0 => "Vap0は最高A1".into(),
                1 => gen_text_tags(&mut r, &m, &alpha, 8) + "a1",
                _ => (0..r.range(1, 5)).map(|_| *r.pick(&['a', 'Z', '7', '!', 'あ', '漢'])).collect(),
            };
            let wide: String = base.chars().map(|c| if ('!'..='~').contains(&c) { char::from_u32(c as u32 - 0x21 + 0xFF01).unwrap() } else { c }).collect();
            let at = r.below(lines.len() + 1);
            let block: Vec<String> = match r.below(3) {
                0 => vec![base.clone(), wide.clone()],
                1 => vec![wide.clone(), base.clone(), base.clone(), wide.clone()],
                _ => vec![base.clone(), base.clone(), wide.clone(), base.clone()],
            };
            for (k, l) in block.into_iter().enumerate() {
                lines.insert(at + k, l);
            }
        }
        // long rejected lines: a NUL character behind 19…24 and 40…45 three-byte characters (a line the library rejects is answered
        // with an empty line, however long it is and wherever its bytes fall)
        if i % 4 == 1 {
            let k = [19usize, 20, 21, 22, 23, 24, 40, 41, 42, 43, 44, 45][(i / 4) % 12];
            let at = r.below(lines.len() + 1);
            lines.insert(at, format!("{}\0{}", "あ".repeat(k), if r.chance(1, 2) { "x" } else { "漢字" }));
            lines.insert(at, format!("ab{}\0", "漢".repeat(k + 1)));
        }
        // every character of the half-width katakana block, alone and followed by each of the two half-width sound marks (whatever the
        // normaliser does with such a pair, the output line is made of the ORIGINAL characters), eight per line
        if i % 4 == 0 {
            let hw: Vec<char> = (0xFF61u32..=0xFF9D).filter_map(char::from_u32).collect();
            for (k, chunk) in hw.chunks(8).enumerate() {
                let mark = ['\u{ff9e}', '\u{ff9f}'][(k + i / 4) % 2];
                let l: String = chunk.iter().flat_map(|&c| if k % 3 == 2 { vec![c] } else { vec![c, mark] }).collect();
                let at = r.below(lines.len() + 1);
                lines.insert(at, l);
            }
        }
        let mut stdin = lines.join(if r.chance(1, 5) { "\r\n" } else { "\n" });
        if r.chance(4, 5) {
            stdin.push('\n');
        }
        let real_lines = lines_of(&stdin);
        for mask in 0..16 {
            let flags: String = ['n', 't', 's', 'g'].iter().enumerate().filter(|(k, _)| mask >> k & 1 == 1).map(|(_, c)| *c).collect();
            let ws = if mask % 3 == 0 { *r.pick(&wss) } else { "-" };
            let cl = clusters_text(&real_lines, flags.contains('n'), false);
            writeln!(out, "CP {flags}:{ws} {mt} {} {cl} c20", hexs(&stdin)).unwrap();
        }
        // evaluate: tokenized reference lines, every flag combination
        let mut tl: Vec<String> = vec![];
        for _ in 0..r.range(1, 5) {
            if r.chance(1, 6) {
                tl.push(String::new());
                continue;
            }
            let text = gen_text_tags(&mut r, &m, &alpha, 8);
            let mut s = String::new();
            for (k, c) in text.chars().enumerate() {
                if k > 0 && r.chance(1, 2) {
                    s.push(' ');
                } else if k > 0 && r.chance(1, 6) {
                    s.push_str(if r.chance(1, 2) { "/名" } else { "/x/y" });
                    s.push(' ');
                }
                if c == ' ' || c == '/' || c == '\\' {
                    s.push('\\');
                }
                s.push(c);
            }
            tl.push(s);
        }
        // a large stream (oracle-only): > 128 KiB of multi-byte lines, so that every internal read block is crossed
        if i == 1 {
            let mut big = String::new();
            let mut k = 0usize;
            while big.len() < 140_000 {
                big.push_str(&gen_text_tags(&mut r, &m, &alpha, 9));
                big.push_str(["\n", "\n", "\r\n"][k % 3]);
                k += 1;
            }
            for flags in ["", "n", "ts"] {
                writeln!(out, "BIG CP {flags}:- {mt} {} - c20", hexs(&big)).unwrap();
            }
        }
        // an input that stops being UTF-8 part-way (oracle-only): a few lines / more than the tool's output buffer holds, then a
        // line with a lone continuation byte, then more lines
        if i % 4 == 2 {
            for (n_lines, flags) in [(3usize, ""), (3, "nts"), (2500, "")] {
                let mut prefix = String::new();
                for k in 0..n_lines {
                    prefix.push_str(&gen_text_tags(&mut r, &m, &alpha, 9));
                    prefix.push_str(if k % 5 == 4 { "\r\n" } else { "\n" });
                }
                let tail: Vec<u8> = [b"ab".as_slice(), &[0x80, 0xE3, 0x81], b"c\nmore\n".as_slice()].concat();
                writeln!(out, "BIG CPX {flags}:- {mt} {} {} c20", hexs(&prefix), crate::util::hex(&tail)).unwrap();
            }
        }
        // many lines through one run of the tool (the sentence objects are reused for every line), once per run of the generator
        if i == 0 {
            let many: Vec<String> = (0..300).map(|k| match k % 7 {
                0 => String::new(),
                1 => (0..r.range(1, 4)).map(|_| *r.pick(SAMELEN)).collect(),
                _ => gen_text_tags(&mut r, &m, &alpha, 9),
            }).collect();
            let stdin_many = many.join("\n") + "\n";
            let ls = lines_of(&stdin_many);
            for flags in ["", "ts", "ntsg"] {
                let cl = clusters_text(&ls, flags.contains('n'), false);
                writeln!(out, "CP {flags}:- {mt} {} {cl} c20", hexs(&stdin_many)).unwrap();
            }
        }
        let estdin = tl.join("\n") + "\n";
        let elines = lines_of(&estdin);
        for mask in 0..8 {
            let flags: String = ['n', 't', 'w'].iter().enumerate().filter(|(k, _)| mask >> k & 1 == 1).map(|(_, c)| *c).collect();
            let ws = if mask % 2 == 0 { *r.pick(&wss) } else { "-" };
            let cl = clusters_text(&elines, flags.contains('n'), true);
            writeln!(out, "CE {flags}:{ws} {mt} {} {cl} c20", hexs(&estdin)).unwrap();
        }
    }
}
