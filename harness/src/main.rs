//! vharness: generates cases, runs them on the real vaporetto crates, evaluates the property oracles.
//!
//!   vharness gen <family> <tier> <seed>          -> case lines on stdout
//!   vharness run [--oracle <file>]               -> reads case lines on stdin, one response line each;
//!                                                   oracle failures go to <file> as `lineno\tproperty\tmessage`
//!   vharness tabulate types|fullwidth            -> translator input (exhaustive tabulation)
mod ac;
mod bin;
mod cli;
mod clicase;
mod dict;
mod filt;
mod examples;
mod fd;
mod gen_bin;
mod gen_pred;
mod gen_sent;
mod gen_train;
mod kytea;
mod train;
mod train_tags;
mod traincli;
mod model;
mod pred;
mod sent;
mod tabulate;
mod threads;
mod util;

use std::io::{BufRead, Write};

fn main() {
    let args: Vec<String> = std::env::args().collect();
    match args.get(1).map(String::as_str) {
        Some("gen") => {
            let family = args.get(2).expect("family");
            let tier = args.get(3).map(String::as_str).unwrap_or("quick");
            let seed: u64 = args.get(4).and_then(|s| s.parse().ok()).unwrap_or(1);
            let out = std::io::stdout();
            let mut out = std::io::BufWriter::new(out.lock());
            let thorough = tier == "thorough";
            util::silence_panics();
            match family.as_str() {
                "C01" => gen_pred::gen_c01(&mut out, thorough, seed),
                "C09" | "C10" | "C11" | "C12" => gen_train::gen(&mut out, family, thorough, seed),
                "C20" => clicase::gen(&mut out, thorough, seed),
                "TL" => traincli::gen(&mut out, thorough, seed),
                "AC" => ac::gen(&mut out, thorough, seed),
                "FD" => fd::gen(&mut out, thorough, seed),
                "WA" | "EB" => examples::gen(&mut out, family, thorough, seed),
                "C19" => dict::gen(&mut out, thorough, seed),
                "C17" => kytea::gen(&mut out, thorough, seed),
                "C18" => gen_pred::gen_c18(&mut out, thorough, seed),
                "C18M" => gen_pred::gen_c18_miri(&mut out, seed),
                "C14" => gen_pred::gen_c14(&mut out, thorough, seed),
                "C13" => gen_pred::gen_c13(&mut out, thorough, seed),
                "C15" => gen_sent::gen_c15(&mut out, thorough, seed),
                "C07" => gen_bin::gen_c07(&mut out, thorough, seed),
                "C08" => gen_pred::gen_c08(&mut out, thorough, seed),
                "C06" => gen_pred::gen_c06(&mut out, thorough, seed),
                "C02" => gen_sent::gen_c02(&mut out, thorough, seed),
                "C03" => gen_sent::gen_c03(&mut out, thorough, seed),
                "C04" => gen_sent::gen_c04(&mut out, thorough, seed),
                "C05" => gen_sent::gen_c05(&mut out, thorough, seed),
                _ => panic!("unknown family {family}"),
            }
            out.flush().unwrap();
        }
        Some("run") => {
            util::silence_panics();
            let mut oracle_out: Option<std::fs::File> = None;
            if let Some(i) = args.iter().position(|a| a == "--oracle") {
                oracle_out = Some(std::fs::File::create(&args[i + 1]).expect("oracle file"));
            }
            // cases whose model-side input depends on this run (the learner's output): `lineno\tline`
            let mut effective_out: Option<std::fs::File> = None;
            if let Some(i) = args.iter().position(|a| a == "--effective") {
                effective_out = Some(std::fs::File::create(&args[i + 1]).expect("effective file"));
            }
            let stdin = std::io::stdin();
            let out = std::io::stdout();
            let mut out = std::io::BufWriter::new(out.lock());
            for (lineno, line) in stdin.lock().lines().enumerate() {
                let line = line.unwrap();
                let mut fails: Vec<(String, String)> = vec![];
                let mut effective: Option<String> = None;
                let resp = run_case(line.trim(), &mut fails, &mut effective);
                if let (Some(f), Some(e)) = (effective_out.as_mut(), effective) {
                    writeln!(f, "{}\t{}", lineno + 1, e).unwrap();
                }
                writeln!(out, "{resp}").unwrap();
                if std::env::var_os("VH_FLUSH").is_some() {
                    out.flush().unwrap();
                }
                if let Some(f) = oracle_out.as_mut() {
                    for (prop, msg) in fails {
                        let msg = msg.replace('\n', "\\n").replace('\t', "\\t").replace('\r', "\\r");
                        writeln!(f, "{}\t{}\t{}", lineno + 1, prop, msg).unwrap();
                    }
                }
            }
            out.flush().unwrap();
        }
        Some("c19cli") => {
            let thorough = args.get(2).map(String::as_str) == Some("thorough");
            let seed: u64 = args.get(3).and_then(|s| s.parse().ok()).unwrap_or(1);
            dict::cli_roundtrip(thorough, seed);
        }
        Some("c11cli") => {
            let thorough = args.get(2).map(String::as_str) == Some("thorough");
            let seed: u64 = args.get(3).and_then(|s| s.parse().ok()).unwrap_or(1);
            train::cli_train(thorough, seed, args.get(4).map(String::as_str).unwrap_or("C11"));
        }
        Some("c17cli") => {
            let thorough = args.get(2).map(String::as_str) == Some("thorough");
            let seed: u64 = args.get(3).and_then(|s| s.parse().ok()).unwrap_or(1);
            kytea::cli_convert(thorough, seed);
        }
        Some("threads") => {
            util::silence_panics();
            let thorough = args.get(2).map(String::as_str) == Some("thorough");
            let seed: u64 = args.get(3).and_then(|s| s.parse().ok()).unwrap_or(1);
            threads::run(thorough, seed);
        }
        Some("tabulate") => tabulate::run(args.get(2).map(String::as_str).unwrap_or("")),
        _ => {
            eprintln!("usage: vharness gen|run|tabulate …");
            std::process::exit(2);
        }
    }
}

/// executes one case line against the real code; pushes `(property, message)` for every oracle failure
fn run_case(line: &str, fails: &mut Vec<(String, String)>, effective: &mut Option<String>) -> String {
    let toks: Vec<&str> = line.split(' ').collect();
    match toks.as_slice() {
        // oracle-only: the inner case is executed and judged, the response is a constant (the Lean driver answers the same)
        ["BIG", rest @ ..] => {
            let _ = run_case(&rest.join(" "), fails, effective);
            *effective = None;
            "big".into()
        }
        ["S", ops] => sent::run_sent(ops, "", fails),
        ["S", ops, oracle] => sent::run_sent(ops, oracle, fails),
        ["X", h] => sent::run_x(h, "", fails),
        ["X", h, oracle] => sent::run_x(h, oracle, fails),
        ["H", cfg, preds, ops] => pred::run_h(cfg, preds, ops, "", fails),
        ["H", cfg, preds, ops, oracle] => pred::run_h(cfg, preds, ops, oracle, fails),
        [k, ..] if matches!(*k, "B" | "RS" | "RX" | "RF" | "WF") => bin::run(&toks, fails),
        ["E", ..] => pred::run_e(&toks, fails),
        ["BD", n, seed, ..] => pred::run_bd(n.parse().unwrap_or(1000), seed.parse().unwrap_or(1), fails),
        ["TR", ..] => train::run(&toks, fails, effective),
        ["TL", ..] => traincli::run(&toks, fails),
        ["AC", ..] => ac::run(&toks, fails),
        ["FD", ..] => fd::run(&toks),
        ["WA", ..] | ["EB", ..] => examples::run(&toks, fails),
        [k, ..] if matches!(*k, "KY" | "KYE" | "KYX") => kytea::run(&toks, fails),
        [k, ..] if matches!(*k, "RD" | "WJ" | "WP" | "DF" | "LF") => dict::run(&toks, fails),
        [k, ..] if matches!(*k, "CP" | "CE" | "CPX") => clicase::run(&toks, fails),
        _ => "bad-case".into(),
    }
}
