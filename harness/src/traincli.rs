//! The loading stage of the `train` tool (family `TL`), observed through hook H5.
//!
//!   TL <n|-> <cw.cn.tw.tn.ml> <solver> <tok files> <part files> <dict files> [oracle]
//!     files := "-" | file { ";" file },  file := hex of the file's bytes | "e" (an empty file)
//!
//! The real `train` binary, built from the working tree with the `verif-hooks` feature of `vaporetto`, is run on the
//! files with `VAPORETTO_VERIF_DUMP` pointing at a scratch file; the hook records the arguments of `Trainer::new` and of
//! every `Trainer::add_example`. Response: `ok|N …|D …|T …|E …` (the record), `err` (the tool refused the input before it
//! reached the trainer), `panic`.
//! Oracle (from the property texts, not from the tool's code): every line of the corpus files reaches the learner as one
//! sentence, in order, with the characters of the line normalised one by one (unless --no-norm), the labels and the tags
//! the line carries; the dictionary is the sorted set of the normalised surfaces of the dictionary lines; the window and
//! n-gram sizes are the requested ones; a rejected line is an error, never a panic.
use std::io::Write;

use vaporetto::Sentence;
use vaporetto_rules::{string_filters::KyteaFullwidthFilter, StringFilter};

use crate::util::{hex, unhex, unhexs, Rng};

pub const HOOK_BIN: &str = "/verif/target/repo-hooks/release/train";

fn parse_files(s: &str) -> Option<Vec<Vec<u8>>> {
    if s == "-" {
        return Some(vec![]);
    }
    s.split(';').map(|f| if f == "e" { Some(vec![]) } else { unhex(f) }).collect()
}

/// `BufRead::lines` on valid UTF-8: pieces between `\n`, one trailing `\r` stripped, no piece after a final `\n`
fn lines_of(bytes: &[u8]) -> Vec<String> {
    let s = String::from_utf8_lossy(bytes).to_string();
    if s.is_empty() {
        return vec![];
    }
    let mut v: Vec<&str> = s.split('\n').collect();
    if s.ends_with('\n') {
        v.pop();
    }
    v.into_iter().map(|l| l.strip_suffix('\r').unwrap_or(l).to_string()).collect()
}

fn norm_chars(t: &str, no_norm: bool) -> String {
    if no_norm {
        return t.to_string();
    }
    t.chars().map(|c| KyteaFullwidthFilter.filter(&c.to_string())).collect()
}

fn trimmed_tags(s: &Sentence, i: usize) -> Vec<Option<String>> {
    let n = s.n_tags();
    let mut v: Vec<Option<String>> = s.tags()[i * n..(i + 1) * n].iter().map(|t| t.as_ref().map(|x| x.to_string())).collect();
    while v.last() == Some(&None) {
        v.pop();
    }
    v
}

pub fn run(toks: &[&str], fails: &mut Vec<(String, String)>) -> String {
    let ["TL", flags, cfg, solver, tok_s, part_s, dict_s, ..] = toks else { return "bad-case".into() };
    let (Some(tok), Some(part), Some(dict)) = (parse_files(tok_s), parse_files(part_s), parse_files(dict_s)) else { return "bad-case".into() };
    let c: Vec<&str> = cfg.split('.').collect();
    if c.len() != 5 || !std::path::Path::new(HOOK_BIN).exists() {
        return "bad-case".into();
    }
    let no_norm = flags.contains('n');
    let dir = crate::cli::scratch_dir("tl");
    let dump = dir.join("dump.txt");
    let _ = std::fs::remove_file(&dump);
    let mut args: Vec<String> = vec!["--model".into(), dir.join("m.zst").display().to_string(), "--solver".into(), solver.to_string()];
    for (opt, files) in [("--tok", &tok), ("--part", &part), ("--dict", &dict)] {
        for (k, f) in files.iter().enumerate() {
            let p = dir.join(format!("{}{k}.txt", &opt[2..]));
            std::fs::write(&p, f).unwrap();
            args.extend([opt.to_string(), p.display().to_string()]);
        }
    }
    for (k, v) in ["--charw", "--charn", "--typew", "--typen", "--dictn"].iter().zip(&c) {
        args.extend([k.to_string(), v.to_string()]);
    }
    if no_norm {
        args.push("--no-norm".into());
    }
    let o = std::process::Command::new(HOOK_BIN).args(&args).env("VAPORETTO_VERIF_DUMP", &dump).output().expect("spawn train (hooks)");
    let stderr = String::from_utf8_lossy(&o.stderr).to_string();
    let rec: Vec<String> = std::fs::read_to_string(&dump).unwrap_or_default().lines().map(|l| l.to_string()).collect();
    let _ = std::fs::remove_dir_all(&dir);
    let panicked = stderr.contains("panicked");
    let reached = rec.iter().any(|l| l.starts_with("N "));
    let resp = if panicked {
        "panic".to_string()
    } else if reached {
        format!("ok|{}", rec.join("|"))
    } else if o.status.code() != Some(0) {
        "err".to_string()
    } else {
        "ok|".to_string()
    };
    // ---- oracle ------------------------------------------------------------------------------------------
    let mut problems: Vec<String> = vec![];
    if panicked {
        problems.push(format!("the train tool panicked: {}", stderr.lines().find(|l| l.contains("panicked")).unwrap_or("")));
    }
    let corpus_lines: Vec<(bool, String)> = tok.iter().flat_map(|f| lines_of(f)).map(|l| (true, l)).chain(part.iter().flat_map(|f| lines_of(f)).map(|l| (false, l))).collect();
    let dict_lines: Vec<String> = dict.iter().flat_map(|f| lines_of(f)).collect();
    let parse = |tokd: bool, l: &str| if tokd { Sentence::from_tokenized(l).ok() } else { Sentence::from_partial_annotation(l).ok() };
    let all_ok = corpus_lines.iter().all(|(k, l)| parse(*k, l).is_some()) && dict_lines.iter().all(|l| parse(true, l).is_some());
    if !all_ok {
        if reached && !panicked {
            problems.push("an input line that the sentence parser rejects did not stop the tool: the trainer was built".into());
        }
    } else if !panicked {
        if !reached {
            problems.push(format!("every input line is well-formed, but the tool did not reach the trainer (exit {:?}: {})", o.status.code(), stderr.lines().last().unwrap_or("")));
        } else {
            let n_line = rec.iter().find(|l| l.starts_with("N ")).cloned().unwrap_or_default();
            if n_line != format!("N {}", c.join(" ")) {
                problems.push(format!("the trainer was configured with `{n_line}` (charw charn typew typen dictn), requested {}", c.join(" ")));
            }
            let decode = |l: &str| -> Option<(String, usize)> {
                let mut it = l.split(' ');
                let (_, h, n) = (it.next()?, it.next()?, it.next()?);
                Some((unhexs(h)?, n.parse().ok()?))
            };
            let check_sentence = |what: &str, k: usize, line: &str, tokd: bool, got: Option<&String>, problems: &mut Vec<String>| {
                let Some(want) = parse(tokd, line) else { return };
                let Some((gtext, gn)) = got.and_then(|l| decode(l)) else {
                    problems.push(format!("{what} {k} ({line:?}) did not reach the trainer"));
                    return;
                };
                let Ok(g) = Sentence::from_partial_annotation(&gtext) else {
                    problems.push(format!("{what} {k} ({line:?}) reached the trainer in a form that cannot be read back: {gtext:?}"));
                    return;
                };
                let want_text = norm_chars(want.as_raw_text(), no_norm);
                if g.as_raw_text() != want_text {
                    problems.push(format!("{what} {k} ({line:?}) reached the trainer with the text {:?}, expected {:?}", g.as_raw_text(), want_text));
                } else if g.boundaries() != want.boundaries() {
                    problems.push(format!("{what} {k} ({line:?}) reached the trainer with the labels {:?}, the line says {:?}", g.boundaries(), want.boundaries()));
                } else if gn != want.n_tags() || (0..want.boundaries().len() + 1).any(|i| trimmed_tags(&g, i) != trimmed_tags(&want, i)) {
                    problems.push(format!("{what} {k} ({line:?}) reached the trainer with other tags (tag count {gn}, the line has {})", want.n_tags()));
                }
            };
            let es: Vec<&String> = rec.iter().filter(|l| l.starts_with("E ")).collect();
            let ts: Vec<&String> = rec.iter().filter(|l| l.starts_with("T ")).collect();
            if es.len() != corpus_lines.len() {
                problems.push(format!("{} sentences were given to the learner, the corpus files have {} lines", es.len(), corpus_lines.len()));
            }
            for (k, (tokd, l)) in corpus_lines.iter().enumerate() {
                check_sentence("corpus line", k, l, *tokd, es.get(k).copied(), &mut problems);
            }
            if ts.len() != dict_lines.len() {
                problems.push(format!("{} tag-dictionary sentences were given to the trainer, the dictionary files have {} lines", ts.len(), dict_lines.len()));
            }
            for (k, l) in dict_lines.iter().enumerate() {
                check_sentence("dictionary line", k, l, true, ts.get(k).copied(), &mut problems);
            }
            let mut words: std::collections::BTreeSet<String> = Default::default();
            for l in &dict_lines {
                if let Some(s) = parse(true, l) {
                    for t in s.iter_tokens() {
                        words.insert(norm_chars(t.surface(), no_norm));
                    }
                }
            }
            let got_words: Vec<String> = rec.iter().filter_map(|l| l.strip_prefix("D ")).filter_map(unhexs).collect();
            let want_words: Vec<String> = words.into_iter().collect();
            if got_words != want_words {
                problems.push(format!("the word dictionary given to the trainer is {got_words:?}, the dictionary files list {want_words:?} (sorted, each once)"));
            }
        }
    }
    for p in problems.into_iter().take(3) {
        fails.push(("*".into(), p));
    }
    resp
}

const UNITS: &[&str] = &["a", "b", "あ", "い", "漢", "1", "カ", "ｶ", "ｶﾞ", "｢", "－", "Ａ", "ab", "\\ ", "\\/", "\\\\", "𠮷", "z9"];
const TAGS: &[&str] = &["名", "x", "y\\/z", "w\\ v", "A1", ""];

fn tok_line(r: &mut Rng) -> String {
    let n = r.range(1, 4);
    (0..n)
        .map(|_| {
            let mut t: String = (0..r.range(1, 3)).map(|_| *r.pick(UNITS)).collect();
            for _ in 0..r.below(3) {
                t.push('/');
                t.push_str(*r.pick(TAGS));
            }
            t
        })
        .collect::<Vec<_>>()
        .join(" ")
}

fn part_line(r: &mut Rng) -> String {
    let chars = ['a', 'あ', '漢', '1', 'ｶ', '｢', 'Ｚ', 'b'];
    let n = r.range(1, 6) as usize;
    let mut s = String::new();
    for i in 0..n {
        s.push(*r.pick(&chars));
        if r.chance(1, 4) {
            s.push('/');
            s.push_str(*r.pick(&["名", "x1", "y\\|z", "p\\-q"]));
        }
        if i + 1 < n {
            s.push(*r.pick(&['|', '-', ' ']));
        }
    }
    s
}

fn file_of(r: &mut Rng, lines: &[String]) -> Vec<u8> {
    // line ends: LF, CRLF, and a last line without a line end
    let crlf = r.chance(1, 4);
    let mut b = String::new();
    for (i, l) in lines.iter().enumerate() {
        b.push_str(l);
        if i + 1 < lines.len() || r.chance(3, 4) {
            b.push_str(if crlf { "\r\n" } else { "\n" });
        }
    }
    b.into_bytes()
}

fn files_field(files: &[Vec<u8>]) -> String {
    if files.is_empty() {
        "-".into()
    } else {
        files.iter().map(|f| if f.is_empty() { "e".to_string() } else { hex(f) }).collect::<Vec<_>>().join(";")
    }
}

pub fn gen(out: &mut dyn Write, thorough: bool, seed: u64) {
    let mut r = Rng::new(seed ^ 0x71C1);
    let n = if thorough { 1500 } else { 90 };
    for i in 0..n {
        let split = |r: &mut Rng, lines: Vec<String>| -> Vec<Vec<u8>> {
            if lines.is_empty() {
                return if r.chance(1, 2) { vec![] } else { vec![vec![]] };
            }
            let k = if lines.len() >= 2 && r.chance(1, 2) { r.range(1, lines.len() as i64 - 1) as usize } else { lines.len() };
            let mut v = vec![file_of(r, &lines[..k])];
            if k < lines.len() {
                v.push(file_of(r, &lines[k..]));
                if r.chance(1, 4) {
                    v.insert(1, vec![]);
                }
            }
            v
        };
        let mut tok: Vec<String> = (0..r.range(0, 4)).map(|_| tok_line(&mut r)).collect();
        let mut part: Vec<String> = (0..r.range(0, 3)).map(|_| part_line(&mut r)).collect();
        let mut dict: Vec<String> = (0..r.range(0, 4)).map(|_| tok_line(&mut r)).collect();
        // now and then a line the parser rejects (an empty line, a NUL, a lone escape, a bad label): the tool must stop with an error
        if i % 9 == 4 {
            let bad = ["", "a\0b", "a\\", "a?b", " a"][(i / 9) % 5].to_string();
            match r.below(3) {
                0 => tok.insert(r.below(tok.len() + 1), bad),
                1 => part.insert(r.below(part.len() + 1), if bad.is_empty() || bad.contains('\0') { bad } else { "a?b".into() }),
                _ => dict.insert(r.below(dict.len() + 1), bad),
            }
        }
        let mut tokf = split(&mut r, tok);
        let partf = split(&mut r, part);
        let dictf = split(&mut r, dict);
        if tokf.is_empty() && partf.is_empty() {
            tokf.push(vec![]); // the tool insists on a corpus option
        }
        let cfg = if i % 3 == 0 { "3.3.3.3.4".to_string() } else { format!("{}.{}.{}.{}.{}", r.range(1, 4), r.range(1, 3), r.range(1, 5), r.range(1, 2), r.range(1, 6)) };
        let flags = if i % 2 == 0 { "-" } else { "n" };
        writeln!(out, "TL {flags} {cfg} {} {} {} {} tl", [1, 5, 6][i % 3], files_field(&tokf), files_field(&partf), files_field(&dictf)).unwrap();
    }
}
