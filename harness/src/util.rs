//! PRNG, hex helpers, panic capture.
use std::panic::{self, AssertUnwindSafe};

/// SplitMix64: every random choice of the harness derives from one state seeded by VERIF_SEED.
#[derive(Clone)]
pub struct Rng(pub u64);

impl Rng {
    pub fn new(seed: u64) -> Self {
        Rng(seed ^ 0x5DEE_CE66_D1CE_4E5B)
    }
    pub fn next(&mut self) -> u64 {
        self.0 = self.0.wrapping_add(0x9e37_79b9_7f4a_7c15);
        let mut z = self.0;
        z = (z ^ (z >> 30)).wrapping_mul(0xbf58_476d_1ce4_e5b9);
        z = (z ^ (z >> 27)).wrapping_mul(0x94d0_49bb_1331_11eb);
        z ^ (z >> 31)
    }
    /// uniform in 0..n (n > 0)
    pub fn below(&mut self, n: usize) -> usize {
        (self.next() % (n as u64)) as usize
    }
    /// uniform in lo..=hi
    pub fn range(&mut self, lo: i64, hi: i64) -> i64 {
        lo + (self.next() % ((hi - lo + 1) as u64)) as i64
    }
    pub fn chance(&mut self, num: usize, den: usize) -> bool {
        self.below(den) < num
    }
    pub fn pick<'a, T>(&mut self, xs: &'a [T]) -> &'a T {
        &xs[self.below(xs.len())]
    }
}

pub fn hex(bytes: &[u8]) -> String {
    let mut s = String::with_capacity(bytes.len() * 2);
    for b in bytes {
        s.push_str(&format!("{b:02x}"));
    }
    s
}

/// text fields: hex of the UTF-8 bytes, `-` for the empty string
pub fn hexs(s: &str) -> String {
    if s.is_empty() {
        "-".into()
    } else {
        hex(s.as_bytes())
    }
}

pub fn unhex(s: &str) -> Option<Vec<u8>> {
    if s == "-" {
        return Some(vec![]);
    }
    if s.len() % 2 != 0 {
        return None;
    }
    let b = s.as_bytes();
    let mut out = Vec::with_capacity(b.len() / 2);
    for i in (0..b.len()).step_by(2) {
        let v = u8::from_str_radix(std::str::from_utf8(&b[i..i + 2]).ok()?, 16).ok()?;
        out.push(v);
    }
    Some(out)
}

pub fn unhexs(s: &str) -> Option<String> {
    String::from_utf8(unhex(s)?).ok()
}

/// run `f`, mapping a panic to `Err(message)`
pub fn catch<T>(f: impl FnOnce() -> T) -> Result<T, String> {
    panic::catch_unwind(AssertUnwindSafe(f)).map_err(|e| {
        if let Some(s) = e.downcast_ref::<&str>() {
            (*s).to_string()
        } else if let Some(s) = e.downcast_ref::<String>() {
            s.clone()
        } else {
            "panic".to_string()
        }
    })
}

pub fn silence_panics() {
    if std::env::var_os("VH_NOSILENCE").is_none() {
        panic::set_hook(Box::new(|_| {}));
    }
}


/// scalar values that text-handling code is tempted to treat specially: controls, every kind of white space, format
/// characters (byte order mark, joiners, directional marks, tags), separators, combining marks, noncharacters, the
/// edges of the UTF-8 length classes and of the planes
pub fn special_scalars() -> Vec<char> {
    let mut v: Vec<u32> = vec![];
    v.extend(0x00..=0x20);
    v.extend(0x7F..=0xA0);
    v.extend([0xAD, 0x300, 0x301, 0x34F, 0x600, 0x605, 0x61C, 0x6DD, 0x70F, 0x7FF, 0x800, 0x8E2, 0x1680, 0x180E]);
    v.extend(0x2000..=0x200F);
    v.extend(0x2028..=0x202F);
    v.extend(0x205F..=0x206F);
    v.extend([0x20E3, 0x3000, 0x3099, 0x309A, 0x30FB, 0x30FC, 0xD7FF, 0xE000, 0xFE0E, 0xFE0F, 0xFEFF, 0xFF00, 0xFF0F, 0xFF3C, 0xFF5C, 0xFFF9, 0xFFFA, 0xFFFB, 0xFFFC, 0xFFFD, 0xFFFE, 0xFFFF]);
    v.extend([0x10000, 0x1F3FB, 0x1F1E6, 0x1FFFE, 0x1FFFF, 0x2FFFF, 0xE0001, 0xE0020, 0xE007F, 0xE0100, 0xF0000, 0x10FFFE, 0x10FFFF]);
    v.extend([0x110BD, 0x1BCA0, 0x1D173]);
    v.into_iter().filter_map(char::from_u32).collect()
}

/// scalar values that alias a format character when a code point is truncated to 8 or 16 bits (`c as u8`, `c as u16`) or
/// compared through its low byte: low byte / low half-word equal to space, `-`, `/`, `\\`, `|`, NUL, LF, CR
pub fn alias_scalars() -> Vec<char> {
    let mut v: Vec<u32> = vec![];
    for low in [0x20u32, 0x2D, 0x2F, 0x5C, 0x7C, 0x00, 0x0A, 0x0D] {
        for hi in [0x100u32, 0x4E00, 0x3000, 0xFF00, 0x2000, 0x10000, 0x20000, 0x10FF00] {
            v.push(hi + low);
        }
    }
    // the full-width forms of the format characters themselves
    v.extend([0xFF0F, 0xFF3C, 0xFF5C, 0xFF0D, 0x3000, 0x2010, 0x2015, 0x2215, 0x29F5, 0xFE68]);
    v.sort();
    v.dedup();
    v.into_iter().filter_map(char::from_u32).filter(|c| *c != '\0').collect()
}
