//! C07 generator: model files, every truncation point, header mutations, trailing bytes, I/O faults
use std::io::Write;

use crate::model::{gen_model, gen_tag_models, AbsModel, GenOpts};
use crate::util::{hex, Rng};

pub fn gen_c07(out: &mut dyn Write, thorough: bool, seed: u64) {
    let mut r = Rng::new(seed ^ 0xC07);
    // files shipped with the repository: every prefix
    for path in ["/repo/resources/model.bin"] {
        if let Ok(bytes) = std::fs::read(path) {
            writeln!(out, "RX {} full", hex(&bytes)).unwrap();
            let step = if thorough { 1 } else { 7 };
            for k in (0..bytes.len()).step_by(step) {
                writeln!(out, "RX {} {k}", hex(&bytes)).unwrap();
            }
            for k in 0..30.min(bytes.len()) {
                writeln!(out, "RX {} {k}", hex(&bytes)).unwrap();
            }
        }
    }
    // the empty model and tiny models
    let empty = AbsModel { char_w: 1, type_w: 1, ..Default::default() };
    let mut models: Vec<AbsModel> = vec![empty];
    let opts = GenOpts { windows: &[1, 2, 3, 9, 255], max_ngrams: 4, max_words: 3, max_word_len: 5 };
    let n_models = if thorough { 120 } else { 40 };
    for i in 0..n_models {
        let (mut m, alpha) = gen_model(&mut r, &opts);
        if i % 2 == 0 {
            gen_tag_models(&mut r, &mut m, &alpha, 3);
        }
        if i % 5 == 0 {
            // large and negative 32-bit values, comments, 4-byte characters in strings
            m.bias = *r.pick(&[i32::MAX, i32::MIN, -1, 250, 251, 65535, 65536, -32768]);
            for d in m.dict.iter_mut() {
                d.2 = "注釈 \"c\",𠮷\n".into();
                if let Some(w) = d.1.first_mut() {
                    *w = *r.pick(&[i32::MAX, i32::MIN, 125, 126, -126, 32767, 32768, -32769]);
                }
            }
        }
        models.push(m);
    }
    // strings of 4 KiB and more (comment, word, n-gram, tag, token): any staging buffer is crossed by ONE string
    for (k, &len) in [255usize, 256, 4095, 4096, 4097, 6000, 9000].iter().enumerate() {
        let (mut m, alpha) = gen_model(&mut r, &opts);
        gen_tag_models(&mut r, &mut m, &alpha, 2);
        let long: String = (0..len).map(|i| ['x', 'あ', '"', ','][i % 4]).collect::<String>().chars().take(len).collect();
        match k % 3 {
            0 => m.dict.push(("ab".into(), vec![1, 2, 3], long.clone())),
            1 => {
                let n = long.chars().count();
                m.dict.push((long.clone(), vec![1; n + 1], "c".into()));
            }
            _ => {
                if let Some(tm) = m.tag_models.first_mut() {
                    tm.tags.push(vec![long.clone()]);
                } else {
                    m.dict.push(("ab".into(), vec![1, 2, 3], long.clone()));
                }
            }
        }
        let mt = m.to_text();
        writeln!(out, "B {mt} c07").unwrap();
        writeln!(out, "RS {mt} full - - c07").unwrap();
        let lenb = m.to_bytes().len();
        writeln!(out, "WF {mt} {} c07", lenb + 10).unwrap();
        writeln!(out, "WF {mt} {} c07", lenb / 2).unwrap();
        writeln!(out, "RF {mt} {} c07", lenb - 3).unwrap();
    }
    for m in &models {
        let mt = m.to_text();
        let len = m.to_bytes().len();
        writeln!(out, "B {mt} c07").unwrap();
        writeln!(out, "RS {mt} full - - c07").unwrap();
        writeln!(out, "RS {mt} full {} - c07", hex(&(0..r.range(1, 9)).map(|_| r.below(256) as u8).collect::<Vec<_>>())).unwrap();
        // every truncation point (including inputs shorter than the header)
        for k in 0..len {
            writeln!(out, "RS {mt} {k} - - c07").unwrap();
        }
        // a different header: every header byte once
        for i in 0..25 {
            writeln!(out, "RS {mt} full - {i}:{:02x} c07", r.below(256)).unwrap();
        }
        // faults: a sample of positions in quick, every position in thorough
        let step = if thorough { 1 } else { (len / 12).max(1) };
        for k in (0..=len).step_by(step) {
            writeln!(out, "RF {mt} {k} c07").unwrap();
            writeln!(out, "WF {mt} {k} c07").unwrap();
        }
        writeln!(out, "WF {mt} {} c07", len + 10).unwrap();
    }
    // a model that is edited between two serialisations (its only mutator is `replace_dictionary`): longer, shorter, equal and empty
    // dictionaries; read from a slice or from a reader; serialised before the edit or not.  `write`, `to_vec` and a second `to_vec`
    // must agree with each other and with the model's encoding of the edited model
    {
        let opts = GenOpts { windows: &[1, 2, 3], max_ngrams: 3, max_words: 3, max_word_len: 4 };
        for i in 0..(if thorough { 120 } else { 24 }) {
            let (m, _alpha) = gen_model(&mut r, &opts);
            let mut entries: Vec<(String, Vec<i32>, String)> = match i % 4 {
                0 => m.dict.clone(),
                1 => vec![],
                2 => m.dict.iter().take(1).cloned().collect(),
                _ => m.dict.clone(),
            };
            if i % 4 != 1 && i % 4 != 2 {
                for k in 0..(1 + i % 3) {
                    let w: String = format!("新{}語{}", k, "x".repeat(i % 5));
                    let n = w.chars().count();
                    entries.push((w, (0..=n as i32).collect(), if k == 0 { "a longer comment, \"quoted\"".into() } else { String::new() }));
                }
            }
            let es: Vec<String> = entries.iter().map(|(w, ws, c)| format!("{}={}={}", crate::util::hexs(w), ws.iter().map(|x| x.to_string()).collect::<Vec<_>>().join(","), crate::util::hexs(c))).collect();
            let flags = ["pre", "pre rd", "rd", "-"][(i / 4) % 4];
            writeln!(out, "RD {} {} {} {flags} c07", m.to_text(), if es.is_empty() { "-".to_string() } else { es.join("/") }, crate::util::hexs("ab")).unwrap();
        }
    }
}
