//! C07: model files. Cases
//!   B  <model>                          -> hex of Model::to_vec() of the loaded model
//!   RS <model> <k|full> <trail> <mut>   -> read_slice / read of (bytes[..k] with one byte mutated) ++ trail
//!   RF <model> <k>                      -> read from a reader that fails after k bytes
//!   WF <model> <budget>                 -> write into a writer that fails after `budget` bytes
//!   RX <hex> <k|full>                   -> like RS on raw bytes (files from the repository)
use std::io::{Read, Write};

use vaporetto::{errors::VaporettoError, Model};

use crate::model::AbsModel;
use crate::util::{catch, hex, unhex};

fn kind(e: &VaporettoError) -> &'static str {
    match e {
        VaporettoError::InvalidModel(_) => "invalid_model",
        VaporettoError::InvalidArgument(_) => "invalid_argument",
        VaporettoError::UTF8Error(_) => "utf8",
        VaporettoError::CastError(_) => "cast",
        VaporettoError::DecodeError(_) => "decode",
        VaporettoError::EncodeError(_) => "encode",
        VaporettoError::IOError(_) => "io",
    }
}

struct FailingReader<'a> {
    data: &'a [u8],
    pos: usize,
    fail: bool,
}

impl Read for FailingReader<'_> {
    fn read(&mut self, buf: &mut [u8]) -> std::io::Result<usize> {
        if self.pos >= self.data.len() {
            return if self.fail { Err(std::io::Error::other("injected read fault")) } else { Ok(0) };
        }
        let n = buf.len().min(self.data.len() - self.pos).min(7); // short reads on purpose
        buf[..n].copy_from_slice(&self.data[self.pos..self.pos + n]);
        self.pos += n;
        Ok(n)
    }
}

struct FailingWriter {
    out: Vec<u8>,
    budget: usize,
}

impl Write for FailingWriter {
    fn write(&mut self, buf: &[u8]) -> std::io::Result<usize> {
        if self.out.len() >= self.budget {
            return Err(std::io::Error::other("injected write fault"));
        }
        let n = buf.len().min(self.budget - self.out.len()).min(5);
        self.out.extend_from_slice(&buf[..n]);
        Ok(n)
    }
    fn flush(&mut self) -> std::io::Result<()> {
        Ok(())
    }
}

fn show_slice(bytes: &[u8]) -> String {
    match catch(|| Model::read_slice(bytes).map(|(m, rest)| (m.to_vec().map(|v| hex(&v)).unwrap_or_else(|_| "encode-failed".into()), rest.len()))) {
        Ok(Ok((h, rest))) => format!("ok:{h}:{rest}"),
        Ok(Err(e)) => format!("err:{}", kind(&e)),
        Err(_) => "panic".into(),
    }
}

fn show_read(bytes: &[u8], fail: bool) -> String {
    match catch(|| Model::read(FailingReader { data: bytes, pos: 0, fail }).map(|m| m.to_vec().map(|v| hex(&v)).unwrap_or_else(|_| "encode-failed".into()))) {
        Ok(Ok(h)) => format!("ok:{h}"),
        Ok(Err(e)) => format!("err:{}", kind(&e)),
        Err(_) => "panic".into(),
    }
}

pub fn run(toks: &[&str], fails: &mut Vec<(String, String)>) -> String {
    let c07 = toks.last() == Some(&"c07");
    match toks {
        ["B", m, ..] => {
            let Some(m) = AbsModel::parse(m) else { return "bad-case".into() };
            let bytes = m.to_bytes();
            match catch(|| Model::read_slice(&bytes).map(|(x, r)| (x.to_vec(), r.len()))) {
                Ok(Ok((Ok(v), 0))) => {
                    if c07 && v != bytes {
                        fails.push(("C07".into(), format!("to_vec(read_slice(bytes)) differs from bytes for model {}", m.to_text())));
                    }
                    hex(&v)
                }
                Ok(Ok(_)) => "err:rest".into(),
                Ok(Err(e)) => format!("err:{}", kind(&e)),
                Err(_) => "panic".into(),
            }
        }
        ["RS", m, k, trail, mutation, ..] => {
            let Some(m) = AbsModel::parse(m) else { return "bad-case".into() };
            let full = m.to_bytes();
            run_rs(&full, k, trail, mutation, c07, fails)
        }
        ["RX", h, k, ..] => {
            let Some(full) = unhex(h) else { return "bad-case".into() };
            run_rs(&full, k, "-", "-", false, fails)
        }
        ["RF", m, k, ..] => {
            let Some(m) = AbsModel::parse(m) else { return "bad-case".into() };
            let full = m.to_bytes();
            let Ok(k) = k.parse::<usize>() else { return "bad-case".into() };
            let r = show_read(&full[..k.min(full.len())], true);
            if c07 && k < full.len() && !r.starts_with("err:") {
                fails.push(("C07".into(), format!("a reader failing after {k} of {} bytes gave {r}", full.len())));
            }
            format!("read:{r}")
        }
        ["WF", m, budget, ..] => {
            let Some(m) = AbsModel::parse(m) else { return "bad-case".into() };
            let full = m.to_bytes();
            let Ok(budget) = budget.parse::<usize>() else { return "bad-case".into() };
            let r = match catch(|| {
                let model = Model::read_slice(&full).unwrap().0;
                let mut w = FailingWriter { out: vec![], budget };
                model.write(&mut w).map(|_| hex(&w.out))
            }) {
                Ok(Ok(h)) => format!("ok:{h}"),
                Ok(Err(e)) => format!("err:{}", kind(&e)),
                Err(_) => "panic".into(),
            };
            if c07 && budget < full.len() && !r.starts_with("err:") {
                fails.push(("C07".into(), format!("a writer failing after {budget} of {} bytes gave {r}", full.len())));
            }
            if c07 && budget >= full.len() && r != format!("ok:{}", hex(&full)) {
                fails.push(("C07".into(), format!("write() produced {r}, not the bytes of to_vec()")));
            }
            format!("write:{r}")
        }
        _ => "bad-case".into(),
    }
}

fn run_rs(full: &[u8], k: &str, trail: &str, mutation: &str, c07: bool, fails: &mut Vec<(String, String)>) -> String {
    let Some(trail) = unhex(trail) else { return "bad-case".into() };
    let cut = if k == "full" { full.len() } else { k.parse::<usize>().unwrap_or(0).min(full.len()) };
    let mut bytes = full[..cut].to_vec();
    let mut mutated = false;
    if mutation != "-" {
        let Some((i, b)) = mutation.split_once(':') else { return "bad-case".into() };
        let (Ok(i), Ok(b)) = (i.parse::<usize>(), u8::from_str_radix(b, 16)) else { return "bad-case".into() };
        if i < bytes.len() && bytes[i] != b {
            bytes[i] = b;
            mutated = true;
        }
    }
    bytes.extend_from_slice(&trail);
    let s = show_slice(&bytes);
    let r = show_read(&bytes, false);
    if c07 {
        if cut == full.len() && !mutated {
            let want = format!("ok:{}:{}", hex(full), trail.len());
            if s != want {
                fails.push(("C07".into(), format!("read_slice of a model file followed by {} bytes gave {s}", trail.len())));
            }
            if r != format!("ok:{}", hex(full)) {
                fails.push(("C07".into(), format!("read of a model file gave {r}")));
            }
            // two models written one after the other into ONE stream and read back one after the other from ONE reader (a cursor,
            // and a reader that hands out a few bytes at a time): each of them has to come back
            let mut two = full.to_vec();
            two.extend_from_slice(full);
            let both = catch(|| {
                let mut c = std::io::Cursor::new(&two[..]);
                let a = Model::read(&mut c).map(|m| m.to_vec().unwrap_or_default());
                let b = Model::read(&mut c).map(|m| m.to_vec().unwrap_or_default());
                let mut f = FailingReader { data: &two, pos: 0, fail: false };
                let a2 = Model::read(&mut f).map(|m| m.to_vec().unwrap_or_default());
                let b2 = Model::read(&mut f).map(|m| m.to_vec().unwrap_or_default());
                [a, b, a2, b2].iter().map(|x| match x { Ok(v) if v == full => "ok".to_string(), Ok(_) => "other-model".to_string(), Err(e) => format!("err:{}", kind(e)) }).collect::<Vec<_>>()
            });
            match both {
                Ok(v) if v.iter().all(|x| x == "ok") => {}
                Ok(v) => fails.push(("C07".into(), format!("two models written into one stream and read back from one reader (cursor: first, second; short reads: first, second) gave {v:?}"))),
                Err(m) => fails.push(("C07".into(), format!("reading two models from one stream panicked: {m}"))),
            }
        } else if trail.is_empty() && !mutated {
            // a proper prefix
            if !s.starts_with("err:") {
                fails.push(("C07".into(), format!("read_slice of the first {cut} of {} bytes gave {s}", full.len())));
            }
            if !r.starts_with("err:") {
                fails.push(("C07".into(), format!("read of the first {cut} of {} bytes gave {r}", full.len())));
            }
        } else if mutated && mutation.split(':').next().and_then(|i| i.parse::<usize>().ok()).map_or(false, |i| i < 25) {
            // a different header
            if !s.starts_with("err:") || !r.starts_with("err:") {
                fails.push(("C07".into(), format!("a file with a foreign header gave slice {s} / read {r}")));
            }
        }
    }
    format!("slice:{s};read:{r}")
}
