//! generators for the trainer family (C09–C12); training is run while generating so that the learner's quantised
//! output (the hook trace) is part of the case
use std::io::Write;

use crate::train::TrCase;
use crate::util::Rng;

const ALPHA: &[char] = &['a', 'b', 'あ', 'い', '漢', '1', 'カ'];
const TAGS: &[&[&str]] = &[&["名", "動", "助"], &["x", "y/z", "w v"], &["P", "Q"]];

/// every fifth case draws its characters from white space of all kinds and other special scalar values (as corpus
/// characters, as tokens of their own and as dictionary words): a word is a word whatever it is made of
const WS_ALPHA: &[char] = &['\u{3000}', '\u{a0}', ' ', '\t', '\u{2028}', '\u{feff}', 'a', 'あ', '\u{200b}', '\u{85}'];

thread_local! {
    static CUR_ALPHA: std::cell::Cell<&'static [char]> = const { std::cell::Cell::new(ALPHA) };
}

fn word(r: &mut Rng, min: usize, max: usize) -> String {
    let alpha = CUR_ALPHA.with(|a| a.get());
    (0..r.range(min as i64, max as i64)).map(|_| *r.pick(alpha)).collect()
}

fn esc(s: &str) -> String {
    s.chars().map(|c| if c == ' ' || c == '/' || c == '\\' { format!("\\{c}") } else { c.to_string() }).collect()
}

/// kinds: 0 empty corpus, 1 single class (no word boundary), 2 untagged, 3 partially tagged, 4 partially annotated, 5 tagged with ambiguity,
/// 6 tokens with more than eight tag classes
fn corpus(r: &mut Rng, kind: usize, n_sent: usize, vocab: &[String]) -> Vec<(char, String)> {
    let mut out = vec![];
    if kind == 0 {
        return out;
    }
    if kind == 6 {
        // many tag classes: one token with two ambiguous categories of 5 and 4 candidates (9 classes, more than the fixed vector
        // length), annotated with both tags in some sentences and with the first only in others; a second token with 3 + 7
        let many = [("A", 5usize, "B", 4usize), ("C", 3, "D", 7)];
        for k in 0..(n_sent.max(4) * 3) {
            let (c1, n1, c2, n2) = many[k % 2];
            let t = &vocab[k % 2 % vocab.len()];
            let ctx = if r.chance(1, 2) { r.pick(vocab).clone() } else { word(r, 1, 2) };
            let both = k % 3 != 2;
            let tag = if both { format!("/{c1}{}/{c2}{}", k % n1, (k / 2) % n2) } else { format!("/{c1}{}", (k + 1) % n1) };
            out.push(('t', format!("{} {}{tag} {}", esc(&ctx), esc(t), esc(&ctx))));
        }
        return out;
    }
    for _ in 0..n_sent {
        let n_tok = if kind == 1 { 1 } else { r.range(1, 5) as usize };
        let toks: Vec<String> = (0..n_tok).map(|_| if r.chance(3, 4) { r.pick(vocab).clone() } else { word(r, 1, 3) }).collect();
        if kind == 4 || (kind >= 3 && r.chance(1, 4)) {
            // partial annotation: labels on character level, some unknown, tags on some characters
            let text: Vec<char> = toks.concat().chars().collect();
            let mut ends = vec![];
            let mut p = 0;
            for t in &toks {
                p += t.chars().count();
                ends.push(p);
            }
            let mut s = String::new();
            for (i, ch) in text.iter().enumerate() {
                s.push(*ch);
                if ends.contains(&(i + 1)) && kind != 1 && r.chance(1, 2) {
                    let t = r.pick(TAGS[0]);
                    s.push('/');
                    s.push_str(t);
                }
                if i + 1 < text.len() {
                    let lab = if r.chance(1, 3) { ' ' } else if ends.contains(&(i + 1)) { '|' } else { '-' };
                    s.push(lab);
                }
            }
            out.push(('p', s));
        } else {
            let mut s = String::new();
            for (i, t) in toks.iter().enumerate() {
                if i > 0 {
                    s.push(' ');
                }
                s.push_str(&esc(t));
                let tagged = match kind {
                    2 | 1 => false,
                    3 => r.chance(1, 2),
                    _ => true,
                };
                if tagged {
                    let n_cat = r.range(1, 3) as usize;
                    for c in 0..n_cat {
                        s.push('/');
                        if r.chance(4, 5) {
                            // ambiguity: the tag depends only loosely on the token
                            let cands = TAGS[c % TAGS.len()];
                            let k = if kind == 5 { r.below(cands.len()) } else { t.len() % cands.len() };
                            s.push_str(&esc(cands[k]));
                        }
                    }
                }
            }
            out.push(('t', s));
        }
        // the same text again, next to itself, under other annotations (once with fewer, once with more labelled boundaries):
        // what a sentence contributes must not depend on what the trainer was given before it
        if kind >= 2 && r.chance(1, 3) {
            let text: Vec<char> = toks.concat().chars().collect();
            for pass in 0..r.range(1, 3) {
                let p_unknown = if pass == 0 { 2 } else { 0 };
                let mut s = String::new();
                for (i, ch) in text.iter().enumerate() {
                    s.push(*ch);
                    if i + 1 < text.len() {
                        s.push(if r.chance(p_unknown, 3) { ' ' } else if r.chance(1, 2) { '|' } else { '-' });
                    }
                }
                if r.chance(1, 2) {
                    out.insert(out.len() - 1, ('p', s));
                } else {
                    out.push(('p', s));
                }
            }
        }
    }
    out
}

pub fn gen(out: &mut dyn Write, family: &str, thorough: bool, seed: u64) {
    let mut r = Rng::new(seed ^ 0x7124);
    let (n, oracle) = match (family, thorough) {
        ("C09", false) => (70, "c09"),
        ("C09", true) => (1500, "c09"),
        ("C10", false) => (70, "c10"),
        ("C10", true) => (1500, "c10"),
        ("C11", false) => (160, "c11"),
        ("C11", true) => (4000, "c11"),
        ("C12", false) => (70, "c12"),
        (_, _) => (1500, "c12"),
    };
    // the configurations that failed on the pinned tree come first
    let mut fixed: Vec<(u8, u8, u8, u8)> = vec![(3, 2, 1, 1), (2, 2, 3, 2), (1, 3, 1, 3), (2, 3, 1, 1), (0, 0, 0, 0), (1, 0, 0, 1)];
    for i in 0..n {
        CUR_ALPHA.with(|a| a.set(if i % 5 == 3 { WS_ALPHA } else { ALPHA }));
        let vocab: Vec<String> = (0..r.range(2, 6)).map(|_| word(&mut r, 1, 3)).collect();
        let (cw, cn, tw, tn) = if let Some(c) = fixed.pop() {
            c
        } else {
            (r.below(5) as u8, r.below(5) as u8, r.below(5) as u8, r.below(5) as u8)
        };
        let kind = match family {
            "C11" => i % 7,
            "C12" => [5, 3, 5, 4][i % 4],
            _ => [2, 4, 5, 3][i % 4],
        };
        let mut dict: Vec<String> = vec![];
        if r.chance(2, 3) {
            for _ in 0..r.range(1, 4) {
                let w = if r.chance(1, 2) { r.pick(&vocab).clone() } else { word(&mut r, 1, 4) };
                if !dict.contains(&w) {
                    dict.push(w);
                }
            }
        }
        // the library accepts the dictionary in any order (only the `train` tool sorts it): every other case is not sorted
        dict.sort();
        if i % 2 == 1 && dict.len() >= 2 {
            dict.reverse();
            let k = r.below(dict.len());
            dict.swap(0, k);
        }
        // a dictionary that lists a word twice (next to itself, or with other words in between): the library refuses it today; should it
        // ever accept it, the model must still count each word's weight once per occurrence in a text
        if i % 9 == 4 && !dict.is_empty() {
            let w = dict[0].clone();
            if i % 2 == 0 || dict.len() == 1 {
                dict.push(w);
            } else {
                dict.insert(1, w.clone());
                dict.push(w);
            }
            if dict.len() == 2 && i % 4 == 0 {
                dict.insert(1, "重複".into());
            }
        }
        // tag dictionary: some corpus tokens and some dictionary-only tokens, with tags
        let mut tagdict: Vec<String> = vec![];
        if family == "C12" || r.chance(1, 3) {
            for _ in 0..r.range(0, 3) {
                let w = if r.chance(1, 2) { r.pick(&vocab).clone() } else { word(&mut r, 1, 3) };
                let tags = match r.below(3) {
                    0 => format!("/{}", esc(*r.pick(TAGS[0]))),
                    1 => format!("//{}", esc(*r.pick(TAGS[1]))),
                    _ => String::new(),
                };
                tagdict.push(format!("{}{}", esc(&w), tags));
            }
        }
        // solver numbers from 100 on: the L1-regularised solvers with cost 0.1 (rare classes end up without any weight: bias and
        // weight vectors that end in zeros), on the corpora with more than eight tag classes
        let solver = match family {
            "C11" if kind == 6 => [105u8, 106, 5, 1][(i / 7) % 4],
            "C11" => (i % 8) as u8,
            _ => *r.pick(&[1u8, 1, 5, 6, 0]),
        };
        let n_sent = r.range(3, if thorough { 12 } else { 8 }) as usize;
        let c = TrCase {
            cw,
            cn,
            tw,
            tn,
            ml: r.range(1, 4) as u8,
            solver,
            dict,
            tagdict,
            corpus: corpus(&mut r, kind, n_sent, &vocab),
            eval: (0..4).map(|_| (0..r.range(1, 4)).map(|_| if r.chance(2, 3) { r.pick(&vocab).clone() } else { word(&mut r, 1, 2) }).collect::<String>()).collect(),
            trace: None,
        };
        writeln!(out, "{}", c.to_line(oracle)).unwrap();
    }
    CUR_ALPHA.with(|a| a.set(ALPHA));
    // linearly separable tag corpora (C12): the tag of an ambiguous token is decided by the token in front of it, every pattern is
    // repeated; with and without a tag dictionary that lists the ambiguous token under its first-seen tag, under a later-seen tag,
    // under a tag the corpus never uses, and tokens the corpus does not contain.  The learned classifiers must reproduce the tags of
    // the training sentences (oracle `c12sep`): that is what ties a class of the learner to the tag it was trained for.
    if family == "C12" {
        let n_sep = if thorough { 60 } else { 10 };
        for i in 0..n_sep {
            let (x, z) = (["X", "漢", "xy"][i % 3], ["Z", "の", "zw"][(i / 3) % 3]);
            let (first, second, third) = (["N", "名詞", "n-1"][i % 3], ["V", "動詞", "v 2"][i % 3], ["A", "形", "a/3"][i % 3]);
            let three = i % 4 == 3;   // a third reading, after "e"
            let mut lines: Vec<String> = vec![];
            for (pre, post) in [("c", "d"), ("d", "c"), ("c", "c"), ("d", "d")] {
                for amb in [x, z] {
                    lines.push(format!("{pre}/S a/S {}/{} {post}/S", esc(amb), esc(first)));
                    // occurrences WITHOUT a tag (between tagged tokens) in front of tagged ones, in the other context: they are no
                    // examples for the classifier, and must not shift which features the following examples are trained with
                    if i % 2 == 1 {
                        lines.push(format!("{pre}/S a/S {} {post}/S", esc(amb)));
                        lines.push(format!("{post}/S a/S {} {pre}/S", esc(amb)));
                    }
                    lines.push(format!("{pre}/S b/S {}/{} {post}/S", esc(amb), esc(second)));
                    if three {
                        lines.push(format!("{pre}/S e/S {}/{} {post}/S", esc(amb), esc(third)));
                    }
                }
                lines.push(format!("{pre}/S a/S Y/{} {post}/S", esc(first)));
                lines.push(format!("{pre}/S b/S Y/{} {post}/S", esc(first)));
            }
            let tagdict: Vec<String> = match i % 5 {
                0 => vec![],
                1 => vec![format!("{}/{}", esc(x), esc(second)), format!("W/{}", esc(second))],
                2 => vec![format!("{}/{}", esc(x), esc(first)), format!("Y/{}", esc(second))],
                3 => vec![format!("{}/Q", esc(x)), format!("{}/{}", esc(z), esc(second))],
                _ => vec![format!("{}/{}", esc(z), esc(if three { third } else { second })), format!("{}/{}", esc(x), esc(second))],
            };
            let w = 1 + (i % 3) as u8;
            let c = TrCase {
                cw: w, cn: w, tw: w, tn: 1 + ((i / 2) % 3) as u8, ml: 2,
                solver: [1u8, 5, 6, 0][i % 4],
                dict: if i % 2 == 0 { vec![] } else { vec![x.to_string(), "W".to_string()] },
                tagdict,
                corpus: lines.into_iter().map(|l| ('t', l)).collect(),
                eval: vec![format!("ca{x}d"), format!("db{z}c")],
                trace: None,
            };
            writeln!(out, "{}", c.to_line("c12sep")).unwrap();
        }
    }
    // annotated boundaries WITHOUT any feature are examples too (C10): dictionary-only configurations (n-gram sizes or windows 0) in which
    // most annotated boundaries are touched by no dictionary word and all of those are non-boundaries; the learner sees them only through
    // the bias, so a text without dictionary words must come out unsegmented (oracle `c10bias`)
    if family == "C10" {
        for i in 0..(if thorough { 24 } else { 6 }) {
            let (cw, cn, tw, tn) = [(1u8, 0u8, 1u8, 0u8), (0, 2, 0, 2), (0, 0, 0, 0), (2, 0, 0, 1)][i % 4];
            let dw = ["ab", "漢字", "a"][i % 3];
            let filler = ["wxyz", "かきくけこ", "mnopq"][(i / 3) % 3];
            let mut lines: Vec<(char, String)> = vec![];
            for k in 0..(6 + i % 3) {
                // one dictionary word per sentence between long unsegmented fillers: featureless boundaries outnumber the others
                let l = if k % 2 == 0 { format!("{filler}{filler} {dw} {filler}") } else { format!("{filler} {dw} {filler}{filler}{filler}") };
                lines.push(('t', l));
            }
            let c = TrCase {
                cw, cn, tw, tn, ml: 2, solver: [1u8, 5, 6, 0][i % 4],
                dict: vec![dw.to_string()], tagdict: vec![], corpus: lines,
                eval: vec![filler.to_string(), format!("{filler}{filler}")], trace: None,
            };
            // (tw, tn) = (0, 1) in the last configuration keeps type n-grams switched off through the window
            writeln!(out, "{}", c.to_line("c10bias")).unwrap();
        }
    }
    // scale: sizes at which narrow integer types inside the trainer would wrap
    let tok_line = |r: &mut Rng, n_chars: usize, alpha: &[char]| -> String {
        let mut s = String::new();
        let mut k = 0;
        while k < n_chars {
            let l = (r.range(1, 6) as usize).min(n_chars - k);
            if k > 0 {
                s.push(' ');
            }
            for _ in 0..l {
                s.push(*r.pick(alpha));
            }
            k += l;
        }
        s
    };
    // windows of 127 and more on SHORT sentences, in every family (u8 arithmetic on the window size: `window * 2`, `window + n`
    // wrap or trap from 128 on; the features of a short sentence are the same for every window that covers it)
    for (k, (cw, cn, tw, tn)) in [(128u8, 1u8, 2u8, 1u8), (2, 2, 128, 1), (129, 3, 255, 2), (127, 2, 200, 3), (255, 3, 129, 1)].into_iter().enumerate() {
        if !thorough && k % 2 == 1 && family != "C10" {
            continue;
        }
        // … and the largest length bucket for dictionary words (`dictn` is a u8 as well), and, for the tag families, tags on some tokens
        let tagged = matches!(family, "C11" | "C12") && k % 2 == 0;
        let c = TrCase {
            cw, cn, tw, tn, ml: [2u8, 255, 128][k % 3], solver: [1u8, 5, 6][k % 3],
            dict: if k % 2 == 0 { vec!["ab".into(), "a".into()] } else { vec![] },
            tagdict: vec![],
            corpus: (0..4).map(|j| ('t', {
                let l = tok_line(&mut r, 14, &['a', 'b', 'あ', '1']);
                if tagged { l.split(' ').enumerate().map(|(q, t)| if q % 2 == 0 { format!("{t}/T{}", (q + j) % 3) } else { t.to_string() }).collect::<Vec<_>>().join(" ") } else { l }
            })).collect(),
            eval: (0..2).map(|_| tok_line(&mut r, 12, &['a', 'b', 'あ', '1']).replace(' ', "")).collect(),
            trace: None,
        };
        writeln!(out, "{}", c.to_line(oracle)).unwrap();
    }
    match family {
        "C09" => {
            // windows beyond 127 with sentences longer than the window: relative positions need more than 8 bits
            for (cw, tw) in [(140u8, 2u8), (2, 200), (255, 1)] {
                let c = TrCase {
                    cw, cn: 2, tw, tn: 1, ml: 2, solver: 1,
                    dict: vec!["ab".into()], tagdict: vec![],
                    corpus: (0..3).map(|_| ('t', tok_line(&mut r, 300, &['a', 'b', 'あ']))).collect(),
                    eval: (0..2).map(|_| tok_line(&mut r, 290, &['a', 'b', 'あ']).replace(' ', "")).collect(),
                    trace: None,
                };
                writeln!(out, "{}", c.to_line(oracle)).unwrap();
            }
        }
        "C11" => {
            // windows of 8 and more (short n-grams stop fitting the fixed 8-entry layout) with n-grams that only occur at
            // sentence ends in training and at the very start of the texts to segment
            for (k, (cw, tw)) in [(8u8, 2u8), (9, 9), (12, 8), (2, 8)].into_iter().enumerate() {
                let c = TrCase {
                    cw, cn: 1 + (k % 2) as u8, tw, tn: 1, ml: 2, solver: [1u8, 5, 6, 0][k % 4],
                    dict: vec![], tagdict: vec![],
                    corpus: (0..6).map(|_| ('t', format!("{} 。", tok_line(&mut r, 12, &['a', 'b', 'あ', '漢'])))).collect(),
                    eval: vec!["。ab".into(), "。".into(), "。。あ漢ab。".into(), "a。".into()],
                    trace: None,
                };
                writeln!(out, "{}", c.to_line(oracle)).unwrap();
            }
            // dictionary words of 255, 256, 257 characters that occur in the corpus
            for len in [255usize, 256, 257] {
                let w: String = (0..len).map(|i| ['a', 'b'][i % 2]).collect();
                let line = format!("あ {w} い {w} あい");
                let c = TrCase {
                    cw: 2, cn: 2, tw: 2, tn: 2, ml: 4, solver: [1u8, 5, 0][len % 3],
                    dict: vec![w.clone(), "あ".into()], tagdict: vec![],
                    corpus: vec![('t', line.clone()), ('t', "い あ あ い".into())],
                    eval: vec![format!("あ{w}い"), "あい".into()],
                    trace: None,
                };
                writeln!(out, "{}", c.to_line(oracle)).unwrap();
            }
        }
        "C10" => {
            // dictionary words of 255, 256, 257 and 300 characters that occur in the corpus (their examples against the enumeration)
            for len in [255usize, 256, 257, 300] {
                let w: String = (0..len).map(|i| ['a', 'b'][i % 2]).collect();
                let c = TrCase {
                    cw: 1, cn: 1, tw: 1, tn: 1, ml: [4u8, 255][len % 2], solver: 1,
                    dict: vec![w.clone(), "あ".into()], tagdict: vec![],
                    corpus: vec![('t', format!("あ {w} い {w} あい")), ('t', "い あ あ い".into())],
                    eval: vec!["あい".into()],
                    trace: None,
                };
                writeln!(out, "{}", c.to_line(oracle)).unwrap();
            }
            // more than 2^16 annotated boundaries in one trainer (oracle-only: the stored examples against the enumeration)
            let c = TrCase {
                cw: 2, cn: 2, tw: 1, tn: 1, ml: 2, solver: 5,
                dict: vec!["ab".into(), "あ".into()], tagdict: vec![],
                corpus: (0..(if thorough { 1400 } else { 700 })).map(|i| if i % 9 == 0 {
                    // partial annotation: '-' inside tokens, '|' between them, now and then an unannotated boundary
                    let t = tok_line(&mut r, 100, &['a', 'b', 'あ', '漢']);
                    let mut p = String::new();
                    let cs: Vec<char> = t.chars().collect();
                    for (k, &ch) in cs.iter().enumerate() {
                        if ch == ' ' {
                            continue;
                        }
                        if k > 0 {
                            p.push(if cs[k - 1] == ' ' { '|' } else if k % 11 == 0 { ' ' } else { '-' });
                        }
                        p.push(ch);
                    }
                    ('p', p)
                } else { ('t', tok_line(&mut r, 100, &['a', 'b', 'あ', '漢'])) }).collect(),
                eval: vec!["abあ漢".into()],
                trace: None,
            };
            writeln!(out, "BIG {}", c.to_line(oracle)).unwrap();
        }
        _ => {}
    }
}
