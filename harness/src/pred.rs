//! `H <cfg> <preds> <ops> [oracle]` — histories with predictors.
//!   preds := pred { "!" pred }      pred := <model text> "^" <predict_tags 0|1><store_tag_scores 0|1>[s]
//! A trailing `s` replaces the predictor by its serialize -> deserialize round trip (C14).
use vaporetto::{CharacterBoundary, Predictor, Sentence};

use crate::model::AbsModel;
use crate::util::catch;

/// the cargo features this harness binary was compiled with, as the cfg letters of the case lines
pub fn compiled_cfg() -> &'static str {
    // the main harness always builds vaporetto with its default features
    "fct"
}

pub fn build_pred(spec: &str) -> (Option<AbsModel>, Result<Predictor, String>) {
    let Some((mtext, flags)) = spec.rsplit_once('^') else { return (None, Err("bad".into())) };
    let Some(m) = AbsModel::parse(mtext) else { return (None, Err("bad".into())) };
    let f: Vec<char> = flags.chars().collect();
    if f.len() < 2 {
        return (None, Err("bad".into()));
    }
    let (pt, st, ser) = (f[0] == '1', f[1] == '1', f.get(2) == Some(&'s'));
    let trail: Vec<u8> = if ser { crate::util::unhex(&flags[3.min(flags.len())..]).unwrap_or_default() } else { vec![] };
    let r = catch(|| {
        let model = m.load().map_err(|e| format!("read:{e}"))?;
        let mut p = Predictor::new(model, pt).map_err(|_| "err:invalid_model".to_string())?;
        if ser {
            // a deserialised predictor is a predictor: every other case serialises and deserialises it a second time
            for _round in 0..(1 + trail.len() % 2) {
                let bytes = p.serialize_to_vec().map_err(|_| "err:serialize".to_string())?;
                let mut bytes = bytes;
                bytes.extend_from_slice(&trail);
                let (q, rest) = unsafe { Predictor::deserialize_from_slice_unchecked(&bytes) }.map_err(|_| "err:deserialize".to_string())?;
                if rest != &trail[..] {
                    return Err("err:rest".to_string());
                }
                p = q;
            }
        }
        // only switched on explicitly: the default (off) must be what the constructor and the deserialiser leave
        if st {
            p.store_tag_scores(true);
        }
        Ok(p)
    });
    let r = match r {
        Ok(x) => x,
        Err(_) => Err("panic".to_string()),
    };
    (Some(m), r)
}

pub fn run_h(cfg: &str, preds: &str, ops: &str, oracle: &str, fails: &mut Vec<(String, String)>) -> String {
    if cfg != compiled_cfg() {
        return format!("cfg-mismatch:{}", compiled_cfg());
    }
    let mut models = vec![];
    let mut built = vec![];
    let mut errs = vec![];
    let flags: Vec<bool> = preds.split('!').map(|sp| sp.rsplit_once('^').map_or(true, |(_, f)| f.starts_with('1'))).collect();
    for (k, spec) in preds.split('!').enumerate() {
        let (m, r) = build_pred(spec);
        let Some(m) = m else { return "bad-case".into() };
        models.push(m);
        match r {
            Ok(p) => built.push(Some(p)),
            Err(e) => {
                errs.push(format!("new{k}:{e}"));
                built.push(None);
            }
        }
    }
    if !errs.is_empty() {
        if oracle == "c14" && errs.iter().any(|e| e.contains("err:rest") || e.contains("err:deserialize")) {
            fails.push(("C14".into(), format!("deserialising a serialised predictor failed or returned the wrong remainder: {}", errs.join(","))));
        }
        return errs.join(",");
    }
    let res = crate::sent::run_hist(&built, &models, &flags, ops, oracle, fails);
    // determinism: the same history on predictors built a second time gives the same observations (every fourth case)
    if matches!(oracle, "c01" | "c06" | "c08" | "c14" | "c18") && ops.len() % 4 == 0 && !res.contains("panic") {
        let again: Vec<Option<Predictor>> = preds.split('!').map(|sp| build_pred(sp).1.ok()).collect();
        if again.iter().all(|p| p.is_some()) {
            let mut dummy = vec![];
            let res2 = crate::sent::run_hist(&again, &models, &flags, ops, "", &mut dummy);
            if res2 != res {
                let prop = format!("C{}", &oracle[1..]).to_uppercase();
                fails.push((prop, format!("the same history on predictors built a second time from the same model observes {} instead of {}", &res2[..res2.len().min(300)], &res[..res.len().min(300)])));
            }
        }
    }
    if oracle == "c08" && !res.contains("panic") {
        // the probe (everything from the last update_raw on) also on predictors that have never been used: a predictor is
        // an immutable value, so what it was used for before must not matter either
        let all: Vec<&str> = ops.split(',').collect();
        if let Some(i) = all.iter().rposition(|o| o.starts_with("raw:")) {
            let fresh_preds: Vec<Option<Predictor>> = preds.split('!').map(|sp| build_pred(sp).1.ok()).collect();
            if fresh_preds.iter().all(|p| p.is_some()) {
                let mut dummy = vec![];
                let fresh = crate::sent::run_hist(&fresh_preds, &models, &flags, &format!("F{}", all[i..].join(",")), "", &mut dummy);
                let (a, b) = (res.rsplit(',').next().unwrap_or(""), fresh.rsplit(',').next().unwrap_or(""));
                if a != b && a.contains(';') && b.contains(';') {
                    fails.push(("C08".into(), format!("after the history the probe observes {a}, but a fresh sentence with never-used predictors observes {b}")));
                }
            }
        }
    }
    res
}

/// C01 oracle on the final sentence: scores = brute-force spec, label = (score > 0), nothing unknown
pub fn oracle_c01(s: &Sentence, m: &AbsModel, fails: &mut Vec<(String, String)>) {
    if !m.well_formed() {
        return;
    }
    let spec = m.spec_scores(s.as_raw_text());
    if spec.iter().any(|&x| x.abs() > i32::MAX as i64) {
        return; // outside the no-overflow assumption
    }
    let got: Vec<i64> = s.boundary_scores().iter().map(|&x| x as i64).collect();
    if got != spec {
        fails.push(("C01".into(), format!("boundary scores {got:?} differ from the pointwise linear model {spec:?} on text {:?}", s.as_raw_text())));
        return;
    }
    for (b, &x) in s.boundaries().iter().zip(&spec) {
        let want = if x > 0 { CharacterBoundary::WordBoundary } else { CharacterBoundary::NotWordBoundary };
        if *b != want {
            fails.push(("C01".into(), format!("boundary labels {} do not match the signs of the scores {spec:?}", crate::sent::labels_str(s))));
            return;
        }
    }
}

/// C06 oracle on the final sentence (after predict [+ filters] + fill_tags with a tag-predicting predictor):
/// every token's tag row equals the brute-force classifier; stored candidate scores equal the sums
pub fn oracle_c06(s: &Sentence, m: &AbsModel, fails: &mut Vec<(String, String)>) {
    if !m.well_formed() || !m.tags_well_formed() {
        return;
    }
    let n_tags = m.tag_models.iter().map(|t| t.tags.len()).max().unwrap_or(0);
    let r = catch(|| {
        if n_tags == 0 {
            return Ok(());
        }
        if s.n_tags() != n_tags {
            return Err(format!("n_tags {} != widest tag model {}", s.n_tags(), n_tags));
        }
        let toks: Vec<(usize, usize)> = s.iter_tokens().map(|t| (t.start(), t.end())).collect();
        // "tokens without a tag model carry no tags", and neither does anything that is not a token: right after
        // fill_tags() every tag slot that is not the row of a token's last character is empty
        let n_chars = s.boundaries().len() + 1;
        if s.tags().len() != n_chars * n_tags {
            return Err(format!("{} tag slots for {n_chars} characters x {n_tags} categories", s.tags().len()));
        }
        for i in 0..n_chars {
            if !toks.iter().any(|&(_, en)| en == i + 1) {
                if let Some(t) = s.tags()[i * n_tags..(i + 1) * n_tags].iter().flatten().next() {
                    return Err(format!("after fill_tags() character {i}, which is not the last character of a token, carries the tag {t:?}"));
                }
            }
        }
        let mut it = s.iter_tokens();
        for (st, en) in toks {
            let tok = it.next().unwrap();
            let (row, scores) = m.tag_spec(s.as_raw_text(), st, en);
            let got: Vec<Option<String>> = tok.tags().iter().map(|t| t.as_ref().map(|c| c.to_string())).collect();
            if got != row {
                return Err(format!("token {:?} [{st},{en}) has tags {got:?}, the per-token linear classifiers give {row:?} (scores {scores:?})", tok.surface()));
            }
            // stored candidate scores
            if let Ok(cands) = catch(|| tok.tag_candidates()) {
                let surface = tok.surface();
                if let Some(tm) = m.tag_models.iter().rev().find(|t| t.token == surface) {
                    let mut exp: Vec<Vec<(String, i64)>> = vec![];
                    let mut off = 0;
                    for c in &tm.tags {
                        if c.len() == 1 {
                            exp.push(vec![(c[0].clone(), 0)]);
                        } else {
                            exp.push(c.iter().enumerate().map(|(k, t)| (t.clone(), scores[off + k])).collect());
                            off += c.len();
                        }
                    }
                    let got: Vec<Vec<(String, i64)>> =
                        cands.iter().map(|v| v.iter().map(|(t, x)| (t.to_string(), *x as i64)).collect()).collect();
                    if got != exp {
                        return Err(format!("token {surface:?}: reported candidate scores {got:?} differ from the sums {exp:?}"));
                    }
                } else if !cands.is_empty() {
                    return Err(format!("token {surface:?} has no tag model but reports candidates"));
                }
            }
        }
        Ok(())
    });
    match r {
        Ok(Ok(())) => {}
        Ok(Err(e)) => fails.push(("C06".into(), e)),
        Err(e) => fails.push(("C06".into(), format!("panic: {e}"))),
    }
}

/// `E <hex bytes> <bias> <ntags> <tp>`: real deserialisation of real bytes; reports the remainder length
pub fn run_e(toks: &[&str], fails: &mut Vec<(String, String)>) -> String {
    let ["E", h, bias, ntags, tp, trail_len, ..] = toks else { return "bad-case".into() };
    let Some(bytes) = crate::util::unhex(h) else { return "bad-case".into() };
    match catch(|| unsafe { Predictor::deserialize_from_slice_unchecked(&bytes) }.map(|(_, rest)| rest.len())) {
        Ok(Ok(n)) => {
            if toks.last() == Some(&"c14") && n.to_string() != *trail_len {
                fails.push(("C14".into(), format!("deserialize returned a remainder of {n} bytes, {trail_len} bytes followed the predictor")));
            }
            format!("ok rest={n} bias={bias} ntags={ntags} tp={tp} reencode=same")
        }
        Ok(Err(_)) => "err:decode".into(),
        Err(_) => "panic".into(),
    }
}

/// `BD <n_words> <seed>` (used as `BIG BD …`, oracle-only): a predictor whose dictionary has `n_words` entries (more than
/// 2^16; in the thorough tier enough to make the serialised form exceed 16 MiB) is serialised with trailing bytes,
/// deserialised, and compared with the original on a few texts
pub fn run_bd(n_words: usize, seed: u64, fails: &mut Vec<(String, String)>) -> String {
    use vaporetto::{Model, WordWeightRecord};
    let mut r = crate::util::Rng::new(seed ^ 0xBD);
    let alpha: Vec<char> = "あいうえおかきくけこ東京都火星猫社長".chars().collect();
    let res = catch(|| {
        let base = AbsModel { char_w: 2, type_w: 2, bias: -3, char_ngrams: vec![("あ".into(), vec![1, -2, 3, 4])], ..Default::default() };
        let mut model = base.load().map_err(|e| format!("base model: {e}"))?;
        let mut seen = std::collections::HashSet::new();
        let mut recs = vec![];
        while recs.len() < n_words {
            let w: String = (0..4 + r.below(3)).map(|_| *r.pick(&alpha)).collect();
            if !seen.insert(w.clone()) {
                continue;
            }
            let n = w.chars().count();
            let ws: Vec<i32> = (0..=n).map(|_| r.range(-30, 30) as i32).collect();
            recs.push(WordWeightRecord::new(w, ws, String::new()).map_err(|e| e.to_string())?);
        }
        let texts: Vec<String> = (0..4).map(|k| format!("{}{}あい", recs[k * 7].get_word(), recs[recs.len() - 1 - k].get_word())).collect();
        model.replace_dictionary(recs);
        let bytes = model.to_vec().map_err(|e| e.to_string())?;
        let (m1, _) = Model::read_slice(&bytes).map_err(|e| e.to_string())?;
        let p = Predictor::new(m1, false).map_err(|e| e.to_string())?;
        let mut ser = p.serialize_to_vec().map_err(|e| format!("serialize_to_vec failed: {e}"))?;
        let n_ser = ser.len();
        ser.extend_from_slice(b"tail!");
        let (q, rest) = unsafe { Predictor::deserialize_from_slice_unchecked(&ser) }
            .map_err(|e| format!("deserialising the {n_ser} bytes that serialize_to_vec produced for a predictor with {n_words} dictionary words failed: {e}"))?;
        if rest != b"tail!" {
            return Err(format!("the bytes after the predictor came back as {rest:?}"));
        }
        for t in &texts {
            let mut a = Sentence::from_raw(t.clone()).map_err(|e| e.to_string())?;
            let mut b = Sentence::from_raw(t.clone()).map_err(|e| e.to_string())?;
            p.predict(&mut a);
            q.predict(&mut b);
            if a.boundary_scores() != b.boundary_scores() || a.boundaries() != b.boundaries() {
                return Err(format!("on {t:?} the deserialised predictor scores {:?}, the original {:?}", b.boundary_scores(), a.boundary_scores()));
            }
        }
        Ok::<(), String>(())
    });
    match res {
        Ok(Ok(())) => {}
        Ok(Err(e)) => fails.push(("C14".into(), e)),
        Err(e) => fails.push(("C14".into(), format!("panic with a {n_words}-word dictionary: {e}"))),
    }
    "bd".into()
}
