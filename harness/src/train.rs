//! Trainer family (C09–C12).
//!
//!   TR <cw.cn.tw.tn.ml> <solver> <dict|-> <tagdict|-> <corpus> <eval|-> <trace|-> [oracle]
//!     dict    := hexword { "," hexword }
//!     tagdict := hex(tokenized sentence) { ";" … }
//!     corpus  := ("t"|"p") ":" hex(annotated sentence) { ";" … }
//!     eval    := hex(raw text) { ";" … }
//!     trace   := the learner's quantised output recorded by the hooks at generation time (sorted items joined by ","):
//!                b=<bias> | f=<feature>=<w> | tb=<hextoken>=<class offset>=<class>=<w> | tf=<hextoken>=<off>=<class>=<feature>=<w>
//! Response: `X<examples>;M<hex model bytes>` | `err:new` | `err:train` | `panic:<where>` | `nondeterministic`
use std::collections::BTreeMap;

use vaporetto::verif_hooks::{take_trace, TraceItem};
use vaporetto::{CharacterBoundary as CB, Model, Predictor, Sentence, SolverType, Trainer};

use crate::util::{catch, hex, hexs, unhexs};
#[allow(unused_imports)]
use crate::model::AbsModel as AbsModelForOracle;

#[derive(Clone)]
pub struct TrCase {
    pub cw: u8,
    pub cn: u8,
    pub tw: u8,
    pub tn: u8,
    pub ml: u8,
    pub solver: u8,
    pub dict: Vec<String>,
    pub tagdict: Vec<String>,
    pub corpus: Vec<(char, String)>,
    pub eval: Vec<String>,
    pub trace: Option<String>,
}

fn list<T>(s: &str, sep: char, f: impl Fn(&str) -> Option<T>) -> Option<Vec<T>> {
    if s == "-" {
        return Some(vec![]);
    }
    s.split(sep).map(f).collect()
}

impl TrCase {
    pub fn parse(t: &[&str]) -> Option<TrCase> {
        let ["TR", cfg, solver, dict, tagdict, corpus, eval, trace, ..] = t else { return None };
        let c: Vec<u8> = cfg.split('.').map(|x| x.parse().ok()).collect::<Option<Vec<u8>>>()?;
        if c.len() != 5 {
            return None;
        }
        Some(TrCase {
            cw: c[0],
            cn: c[1],
            tw: c[2],
            tn: c[3],
            ml: c[4],
            solver: solver.parse().ok()?,
            dict: list(dict, ',', unhexs)?,
            tagdict: list(tagdict, ';', unhexs)?,
            corpus: list(corpus, ';', |x| {
                let (k, h) = x.split_once(':')?;
                Some((k.chars().next()?, unhexs(h)?))
            })?,
            eval: list(eval, ';', unhexs)?,
            trace: if *trace == "-" { None } else { Some(trace.to_string()) },
        })
    }

    pub fn to_line(&self, oracle: &str) -> String {
        let j = |v: Vec<String>, sep: &str| if v.is_empty() { "-".to_string() } else { v.join(sep) };
        format!(
            "TR {}.{}.{}.{}.{} {} {} {} {} {} {} {}",
            self.cw,
            self.cn,
            self.tw,
            self.tn,
            self.ml,
            self.solver,
            j(self.dict.iter().map(|w| hexs(w)).collect(), ","),
            j(self.tagdict.iter().map(|w| hexs(w)).collect(), ";"),
            j(self.corpus.iter().map(|(k, s)| format!("{k}:{}", hexs(s))).collect(), ";"),
            j(self.eval.iter().map(|w| hexs(w)).collect(), ";"),
            self.trace.clone().unwrap_or_else(|| "-".into()),
            oracle
        )
    }
}

pub fn solver_of(k: u8) -> SolverType {
    match k {
        0 => SolverType::L2RegularizedLogistic,
        1 => SolverType::L2RegularizedL2LossSVCDual,
        2 => SolverType::L2RegularizedL2LossSVC,
        3 => SolverType::L2RegularizedL1LossSVCDual,
        4 => SolverType::CrammerSingerSVC,
        5 => SolverType::L1RegularizedL2LossSVC,
        6 => SolverType::L1RegularizedLogistic,
        _ => SolverType::L2RegularizedLogisticDual,
    }
}

pub struct Trained {
    pub examples: String,
    pub trace_items: Vec<TraceItem>,
    pub model: Option<Model>,
    pub outcome: String, // ok | err:new | err:train | panic:new | panic:add | panic:train | err:corpus
}

pub fn trace_text(items: &[TraceItem]) -> String {
    let mut v: Vec<String> = items
        .iter()
        .map(|it| match it {
            TraceItem::Bias(b) => format!("b={b}"),
            TraceItem::Feature(f, w) => format!("f={f}={w}"),
            TraceItem::TagBias(t, o, c, w) => format!("tb={}={o}={c}={w}", hexs(t)),
            TraceItem::TagFeature(t, o, c, f, w) => format!("tf={}={o}={c}={f}={w}", hexs(t)),
            // hook H6: the raw f64 values behind the quantised ones, as bit patterns
            TraceItem::Quant(max, mult) => format!("q={max:016x}:{mult:016x}"),
            TraceItem::RawBias(b) => format!("rb={b:016x}"),
            TraceItem::RawFeature(f, w) => format!("rf={f}={w:016x}"),
        })
        .collect();
    v.sort();
    v.dedup();
    v.join(",")
}

fn examples_text(ex: &[(Vec<(String, f64)>, f64)]) -> String {
    ex.iter()
        .map(|(fs, y)| format!("{}|{}", *y as i64, fs.iter().map(|(f, c)| format!("{f}*{}", *c as i64)).collect::<Vec<_>>().join("+")))
        .collect::<Vec<_>>()
        .join("/")
}

/// runs the real trainer on the case
pub fn train_case(c: &TrCase) -> Trained {
    let _ = take_trace();
    let mut out = Trained { examples: String::new(), trace_items: vec![], model: None, outcome: String::new() };
    let tagdict: Result<Vec<Sentence>, _> = c.tagdict.iter().map(|l| Sentence::from_tokenized(l)).collect();
    let corpus: Result<Vec<Sentence>, _> = c
        .corpus
        .iter()
        .map(|(k, l)| if *k == 't' { Sentence::from_tokenized(l) } else { Sentence::from_partial_annotation(l) })
        .collect();
    let (Ok(tagdict), Ok(corpus)) = (tagdict, corpus) else {
        out.outcome = "err:corpus".into();
        return out;
    };
    let trainer = catch(|| Trainer::new(c.cw, c.cn, c.tw, c.tn, c.dict.clone(), c.ml, &tagdict));
    let mut trainer = match trainer {
        Ok(Ok(t)) => t,
        Ok(Err(_)) => {
            out.outcome = "err:new".into();
            return out;
        }
        Err(_) => {
            out.outcome = "panic:new".into();
            return out;
        }
    };
    for s in &corpus {
        if catch(|| trainer.add_example(s)).is_err() {
            out.outcome = "panic:add".into();
            return out;
        }
    }
    out.examples = examples_text(&trainer.verif_examples());
    let r = silence_stdout(|| catch(|| trainer.train(0.01, if c.solver >= 100 { 0.1 } else { 1.0 }, solver_of(c.solver % 100))));
    out.trace_items = take_trace();
    match r {
        Ok(Ok(m)) => {
            out.model = Some(m);
            out.outcome = "ok".into();
        }
        Ok(Err(_)) => out.outcome = "err:train".into(),
        Err(_) => out.outcome = "panic:train".into(),
    }
    out
}

// ------------------------------------------------------------------------------------------------
// independent feature enumeration (from the property text, not from the trainer's code)
// ------------------------------------------------------------------------------------------------

fn types_of(chars: &[char]) -> Vec<u8> {
    chars.iter().map(|&c| vaporetto::CharacterType::get_type(c) as u8).collect()
}

/// features of boundary `b` as descriptions with multiplicities
pub fn brute_features(c: &TrCase, chars: &[char], b: usize) -> BTreeMap<String, i64> {
    let n = chars.len();
    let types = types_of(chars);
    let mut m: BTreeMap<String, i64> = BTreeMap::new();
    // n-grams [j, j+l) with 1 <= l <= N inside the window [b+1-W, b+1+W) clipped to the text
    for l in 1..=c.cn as usize {
        for j in 0..n {
            let e = j + l;
            if e <= n && j + c.cw as usize >= b + 1 && e <= b + 1 + c.cw as usize {
                let g: String = chars[j..e].iter().collect();
                *m.entry(format!("c:{}:{}", hex(g.as_bytes()), j as i64 - b as i64 - 1)).or_insert(0) += 1;
            }
        }
    }
    for l in 1..=c.tn as usize {
        for j in 0..n {
            let e = j + l;
            if e <= n && j + c.tw as usize >= b + 1 && e <= b + 1 + c.tw as usize {
                let g: String = types[j..e].iter().map(|t| t.to_string()).collect();
                *m.entry(format!("t:{g}:{}", j as i64 - b as i64 - 1)).or_insert(0) += 1;
            }
        }
    }
    // one dictionary feature per dictionary-word occurrence touching the boundary
    for w in &c.dict {
        let wc: Vec<char> = w.chars().collect();
        if wc.is_empty() {
            continue;
        }
        for st in 0..n {
            let en = st + wc.len();
            if en <= n && chars[st..en] == wc[..] {
                let bucket = wc.len().min(c.ml as usize);
                if st >= 1 && b == st - 1 {
                    *m.entry(format!("d:{bucket}:L")).or_insert(0) += 1;
                }
                if st <= b && b + 1 < en {
                    *m.entry(format!("d:{bucket}:I")).or_insert(0) += 1;
                }
                if en < n && b == en - 1 {
                    *m.entry(format!("d:{bucket}:R")).or_insert(0) += 1;
                }
            }
        }
    }
    m
}

fn label_num(b: CB) -> i64 {
    match b {
        CB::NotWordBoundary => 0,
        CB::WordBoundary => 1,
        CB::Unknown => 2,
    }
}

/// expected examples: exactly one per annotated boundary, labelled by the annotation
pub fn brute_examples(c: &TrCase) -> Option<String> {
    let mut out = vec![];
    for (k, l) in &c.corpus {
        let s = if *k == 't' { Sentence::from_tokenized(l).ok()? } else { Sentence::from_partial_annotation(l).ok()? };
        let chars: Vec<char> = s.as_raw_text().chars().collect();
        for (b, &lab) in s.boundaries().iter().enumerate() {
            if lab == CB::Unknown {
                continue;
            }
            let f = brute_features(c, &chars, b);
            out.push(format!("{}|{}", label_num(lab), f.iter().map(|(k, v)| format!("{k}*{v}")).collect::<Vec<_>>().join("+")));
        }
    }
    Some(out.join("/"))
}

/// `effective`: the case line with the trace of THIS run filled in (what the model is given to assemble from)
pub fn run(toks: &[&str], fails: &mut Vec<(String, String)>, effective: &mut Option<String>) -> String {
    let Some(mut c) = TrCase::parse(toks) else { return "bad-case".into() };
    let oracle = toks.get(8).copied().unwrap_or("");
    let t = train_case(&c);
    if oracle.contains("c11") && t.outcome.starts_with("panic") {
        fails.push(("C11".into(), format!("training panicked ({})", t.outcome)));
    }
    // a sentence that the parsers accepted makes `add_example` panic: no example is handed to the learner for it (C10), the model
    // that training should return does not exist (C09, C12); C11 has its own message above
    if t.outcome == "panic:add" {
        for (tag, prop) in [("c10", "C10"), ("c09", "C09"), ("c12", "C12")] {
            if oracle.contains(tag) {
                fails.push((prop.into(), format!("Trainer::add_example panicked on a sentence of the corpus (configuration charw={} charn={} typew={} typen={}): the examples of that sentence never reach the learner", c.cw, c.cn, c.tw, c.tn)));
            }
        }
    }
    if oracle.contains("c10") && !t.outcome.starts_with("err:new") && !t.outcome.starts_with("panic:new") && t.outcome != "err:corpus" && t.outcome != "panic:add" {
        if let Some(exp) = brute_examples(&c) {
            if exp != t.examples {
                let (a, b): (Vec<&str>, Vec<&str>) = (t.examples.split('/').collect(), exp.split('/').collect());
                let k = a.iter().zip(b.iter()).position(|(x, y)| x != y).unwrap_or(a.len().min(b.len()));
                fails.push((
                    "C10".into(),
                    format!(
                        "the trainer stored {} examples, the annotated boundaries give {}; first difference at example {k}: stored {:?}, expected {:?}",
                        a.len(),
                        b.len(),
                        a.get(k),
                        b.get(k)
                    ),
                ));
            }
        }
    }
    match (&t.model, t.outcome.as_str()) {
        (Some(model), "ok") => {
            c.trace = Some(trace_text(&t.trace_items));
            *effective = Some(c.to_line(oracle));
            let bytes = model.to_vec().unwrap_or_default();
            if oracle.contains("c09") {
                oracle_c09(&c, &t, &bytes, fails);
            }
            if oracle.contains("c11") {
                oracle_c11(&c, &bytes, fails);
            }
            if oracle.contains("c12") {
                crate::train_tags::oracle_c12(&c, &t, &bytes, fails);
            }
            if oracle.contains("c10bias") {
                // every annotated boundary is an example, also one without features: here all featureless examples are
                // non-boundaries and they are the large majority, so a text made of filler only must stay unsegmented
                let r = catch(|| {
                    let (m2, _) = Model::read_slice(&bytes).map_err(|e| e.to_string())?;
                    let p = Predictor::new(m2, false).map_err(|e| e.to_string())?;
                    for text in &c.eval {
                        let mut s = Sentence::from_raw(text.clone()).map_err(|e| e.to_string())?;
                        p.predict(&mut s);
                        if s.boundaries().iter().any(|b| *b == CB::WordBoundary) {
                            return Err(format!(
                                "config charw={} charn={} typew={} typen={} solver {}: every annotated boundary that no dictionary word touches is a non-boundary in the corpus ({} sentences), but the trained model splits the filler text {text:?} (scores {:?}): the featureless examples did not reach the learner",
                                c.cw, c.cn, c.tw, c.tn, c.solver, c.corpus.len(), s.boundary_scores()
                            ));
                        }
                    }
                    Ok(())
                });
                match r {
                    Ok(Ok(())) => {}
                    Ok(Err(e)) => fails.push(("C10".into(), e)),
                    Err(e) => fails.push(("C10".into(), format!("panic: {e}"))),
                }
            }
            if oracle.contains("c12sep") {
                crate::train_tags::oracle_c12_separable(&c, &bytes, fails);
            }
            // with hook H6 in the trace the model side re-computes every quantised value from the raw bits and says `Qok`
            let q = if t.trace_items.iter().any(|x| matches!(x, TraceItem::Quant(..))) { ";Qok" } else { "" };
            format!("X{};M{}{q}", t.examples, hex(&bytes))
        }
        (_, o) => {
            if o.starts_with("panic") {
                format!("panic:{}", &o[6..])
            } else {
                o.to_string()
            }
        }
    }
}

/// C09: the trained model scores every boundary as quantised bias + sum of the quantised weights of its features
fn oracle_c09(c: &TrCase, t: &Trained, bytes: &[u8], fails: &mut Vec<(String, String)>) {
    let mut wq: BTreeMap<String, i64> = BTreeMap::new();
    let mut bias = 0i64;
    for it in &t.trace_items {
        match it {
            TraceItem::Bias(b) => bias = *b as i64,
            TraceItem::Feature(f, w) => {
                wq.insert(f.clone(), *w as i64);
            }
            _ => {}
        }
    }
    let r = catch(|| {
        let (model, _) = Model::read_slice(bytes).map_err(|e| e.to_string())?;
        let p = Predictor::new(model, false).map_err(|e| e.to_string())?;
        let mut texts: Vec<String> = c.eval.clone();
        for (k, l) in &c.corpus {
            let s = if *k == 't' { Sentence::from_tokenized(l) } else { Sentence::from_partial_annotation(l) };
            if let Ok(s) = s {
                texts.push(s.as_raw_text().to_string());
            }
        }
        // "every sentence": also a sentence object that another model's predictor has just scored (no update in between), and the
        // corpus line itself as parsed (with its annotations and tags still on it)
        let other = {
            let m = AbsModelForOracle { char_w: 1, type_w: 1, bias: 7, char_ngrams: vec![("a".into(), vec![3, -5])], ..Default::default() };
            Predictor::new(m.load()?, false).map_err(|e| e.to_string())?
        };
        let variants: Vec<(String, u8)> = texts.iter().flat_map(|t| [(t.clone(), 0u8), (t.clone(), 1u8)]).collect();
        for (text, variant) in variants {
            let Ok(mut s) = Sentence::from_raw(text.clone()) else { continue };
            if variant == 1 {
                other.predict(&mut s);
            }
            p.predict(&mut s);
            let text = if variant == 1 { format!("{text} (sentence object scored by another model's predictor just before)") } else { text };
            let chars: Vec<char> = s.as_raw_text().chars().collect();
            let got: Vec<i64> = s.boundary_scores().iter().map(|&x| x as i64).collect();
            let exp: Vec<i64> = (0..chars.len().saturating_sub(1))
                .map(|b| bias + brute_features(c, &chars, b).iter().map(|(f, k)| wq.get(f).copied().unwrap_or(0) * k).sum::<i64>())
                .collect();
            if got != exp {
                return Err(format!(
                    "config charw={} charn={} typew={} typen={} dictn={}: the trained model scores {text:?} as {got:?}, the learned function gives {exp:?}",
                    c.cw, c.cn, c.tw, c.tn, c.ml
                ));
            }
        }
        // the same with the features the trainer itself stored for each annotated boundary of the corpus (hook H2): the
        // model must apply the learned weight of exactly those features at exactly that boundary
        let stored: Vec<&str> = if t.examples.is_empty() { vec![] } else { t.examples.split('/').collect() };
        let mut next = 0usize;
        for (k, l) in &c.corpus {
            let s0 = if *k == 't' { Sentence::from_tokenized(l) } else { Sentence::from_partial_annotation(l) };
            let Ok(s0) = s0 else { continue };
            let Ok(mut s) = Sentence::from_raw(s0.as_raw_text().to_string()) else { continue };
            p.predict(&mut s);
            for (b, &lab) in s0.boundaries().iter().enumerate() {
                if lab == CB::Unknown {
                    continue;
                }
                let Some(ex) = stored.get(next) else { return Ok(()) };
                next += 1;
                let feats = ex.split_once('|').map(|x| x.1).unwrap_or("");
                let mut exp = bias;
                for fk in feats.split('+').filter(|x| !x.is_empty()) {
                    let (f, k) = fk.rsplit_once('*').unwrap_or((fk, "1"));
                    exp += wq.get(f).copied().unwrap_or(0) * k.parse::<f64>().unwrap_or(1.0) as i64;
                }
                let got = s.boundary_scores()[b] as i64;
                if got != exp {
                    return Err(format!(
                        "config charw={} charn={} typew={} typen={} dictn={}: boundary {b} of the training sentence {:?} is scored {got} by the trained model; the features the trainer stored for it ({feats}) with their learned weights give {exp}",
                        c.cw, c.cn, c.tw, c.tn, c.ml, s0.as_raw_text()
                    ));
                }
            }
        }
        Ok::<(), String>(())
    });
    match r {
        Ok(Ok(())) => {}
        Ok(Err(e)) => fails.push(("C09".into(), e)),
        Err(e) => fails.push(("C09".into(), format!("panic while using the trained model: {e}"))),
    }
}

/// C11: the returned model is usable: re-read, accepted by the predictor with and without tags, predicts and tags
/// any text without panicking, and all weights are within the signed 16-bit range
fn oracle_c11(c: &TrCase, bytes: &[u8], fails: &mut Vec<(String, String)>) {
    let r = catch(|| {
        let (m1, rest) = Model::read_slice(bytes).map_err(|e| format!("re-reading the trained model failed: {e}"))?;
        if !rest.is_empty() {
            return Err("trailing bytes after the trained model".into());
        }
        if m1.to_vec().map_err(|e| e.to_string())? != bytes {
            return Err("the trained model does not re-serialise to the same bytes".into());
        }
        for tags in [false, true] {
            let (m, _) = Model::read_slice(bytes).unwrap();
            let p = Predictor::new(m, tags).map_err(|e| format!("Predictor::new(_, {tags}) rejected the trained model: {e}"))?;
            let mut texts = c.eval.clone();
            texts.push("あいう abc 123 漢字カナ".into());
            for (_, l) in &c.corpus {
                texts.push(l.replace([' ', '|', '-', '/', '\\'], ""));
            }
            for text in texts {
                if let Ok(mut s) = Sentence::from_raw(text) {
                    p.predict(&mut s);
                    if tags {
                        s.fill_tags();
                    }
                    let mut buf = String::new();
                    s.write_tokenized_text(&mut buf);
                }
            }
        }
        Ok::<(), String>(())
    });
    match r {
        Ok(Ok(())) => {}
        Ok(Err(e)) => fails.push(("C11".into(), e)),
        Err(e) => fails.push(("C11".into(), format!("using the trained model panicked: {e}"))),
    }
    // weights within i16: decode with the mirror of the wire format
    if let Some(ws) = crate::model::all_weights(bytes) {
        if let Some(w) = ws.iter().find(|w| !(-32767..=32767).contains(*w)) {
            fails.push(("C11".into(), format!("the trained model contains the weight {w}, outside the signed 16-bit range")));
        }
    }
}

/// runs `f` with file descriptor 1 redirected to /dev/null (liblinear prints its progress with C stdio)
pub fn silence_stdout<T>(f: impl FnOnce() -> T) -> T {
    use std::io::Write;
    let _ = std::io::stdout().flush();
    unsafe {
        libc::fflush(std::ptr::null_mut());
        let saved = libc::dup(1);
        let saved2 = libc::dup(2);
        let null = libc::open(c"/dev/null".as_ptr(), libc::O_WRONLY);
        libc::dup2(null, 1);
        libc::dup2(null, 2);
        libc::close(null);
        let r = f();
        libc::fflush(std::ptr::null_mut());
        libc::dup2(saved, 1);
        libc::dup2(saved2, 2);
        libc::close(saved);
        libc::close(saved2);
        r
    }
}

/// extra step (C11 at the tool level): the real `train` binary on generated corpora written to files. The learner is not
/// reproducible run to run, so the comparison with the library is structural: success/failure agree, a failure is an error
/// message and not a panic, the written model passes the C11 oracle (re-read, accepted by both predictors, predicts and
/// tags without panicking, weights within 16 bits), carries the requested window sizes, and lists only dictionary words
/// that the dictionary files contain (after normalisation unless --no-norm).
pub fn cli_train(thorough: bool, seed: u64, family: &str) {
    use vaporetto_rules::{string_filters::KyteaFullwidthFilter, StringFilter};
    let mut buf: Vec<u8> = vec![];
    crate::gen_train::gen(&mut buf, family, thorough, seed ^ 0xC11C);
    let lines: Vec<String> = String::from_utf8_lossy(&buf).lines().map(|l| l.to_string()).collect();
    let dir = crate::cli::scratch_dir("c11");
    let s = |p: &std::path::Path| p.display().to_string();
    let (mut n, mut fails, mut n_ok) = (0, 0, 0);
    for (i, line) in lines.iter().enumerate() {
        let toks: Vec<&str> = line.split(' ').collect();
        let Some(c) = TrCase::parse(&toks) else { continue };
        n += 1;
        let no_norm = i % 2 == 0;
        let (tp, pp, dp, mp) = (dir.join("c.tok"), dir.join("c.part"), dir.join("d.txt"), dir.join("m.zst"));
        let tok: Vec<&str> = c.corpus.iter().filter(|x| x.0 == 't').map(|x| x.1.as_str()).collect();
        let part: Vec<&str> = c.corpus.iter().filter(|x| x.0 != 't').map(|x| x.1.as_str()).collect();
        std::fs::write(&tp, tok.iter().map(|l| format!("{l}\n")).collect::<String>()).unwrap();
        std::fs::write(&pp, part.iter().map(|l| format!("{l}\n")).collect::<String>()).unwrap();
        let esc = |w: &str| -> String { w.chars().map(|c| if c == ' ' || c == '/' || c == '\\' { format!("\\{c}") } else { c.to_string() }).collect() };
        let dict_lines: Vec<String> = c.dict.iter().map(|w| esc(w)).chain(c.tagdict.iter().cloned()).collect();
        std::fs::write(&dp, dict_lines.iter().map(|l| format!("{l}\n")).collect::<String>()).unwrap();
        let _ = std::fs::remove_file(&mp);
        let mut args: Vec<String> = vec!["--model".into(), s(&mp), "--solver".into(), (c.solver % 100).to_string()];
        if c.solver >= 100 {
            args.extend(["--cost".to_string(), "0.1".to_string()]);
        }
        // at least one data set option is required by the tool; an empty file stands for an empty corpus.
        // Every other case spreads the corpus and the dictionary over SEVERAL files of the same option (all must be used)
        let several = i % 2 == 1;
        let write_split = |base: &std::path::Path, lines: &[String], opt: &str, args: &mut Vec<String>| {
            if several && lines.len() >= 2 {
                let cut = (lines.len() + 1) / 2;
                for (k, part) in [&lines[..cut], &lines[cut..]].iter().enumerate() {
                    let p = std::path::PathBuf::from(format!("{}.f{k}", base.display()));
                    std::fs::write(&p, part.iter().map(|l| format!("{l}\n")).collect::<String>()).unwrap();
                    args.extend([opt.to_string(), p.display().to_string()]);
                }
            } else {
                args.extend([opt.to_string(), base.display().to_string()]);
            }
        };
        let tok_lines: Vec<String> = tok.iter().map(|x| x.to_string()).collect();
        let part_lines: Vec<String> = part.iter().map(|x| x.to_string()).collect();
        write_split(&tp, &tok_lines, "--tok", &mut args);
        if !part.is_empty() {
            write_split(&pp, &part_lines, "--part", &mut args);
        }
        if !dict_lines.is_empty() {
            write_split(&dp, &dict_lines, "--dict", &mut args);
        }
        for (k, v) in [("--charw", c.cw), ("--charn", c.cn), ("--typew", c.tw), ("--typen", c.tn), ("--dictn", c.ml)] {
            args.extend([k.to_string(), v.to_string()]);
        }
        if no_norm {
            args.push("--no-norm".into());
        }
        let o = crate::cli::run_tool("train", &args, b"");
        // the library on the same data: dictionary = sorted set of all surfaces in the dictionary file
        let norm = |t: &str| if no_norm { t.to_string() } else { KyteaFullwidthFilter.filter(t) };
        let mut words: std::collections::BTreeSet<String> = Default::default();
        for l in &dict_lines {
            if let Ok(sent) = Sentence::from_tokenized(l) {
                let raw = norm(sent.as_raw_text());
                if let Ok(mut ns) = Sentence::from_raw(raw) {
                    ns.boundaries_mut().clone_from_slice(sent.boundaries());
                    for t in ns.iter_tokens() {
                        words.insert(t.surface().to_string());
                    }
                }
            }
        }
        let mut c2 = c.clone();
        c2.dict = words.iter().cloned().collect();
        c2.tagdict = dict_lines.clone();
        if !no_norm {
            // normalise the surfaces of every line the way the tool does (tags are kept)
            let renorm = |l: &str, tokd: bool| -> Option<String> {
                let sent = if tokd { Sentence::from_tokenized(l).ok()? } else { Sentence::from_partial_annotation(l).ok()? };
                let mut ns = Sentence::from_raw(KyteaFullwidthFilter.filter(sent.as_raw_text())).ok()?;
                ns.boundaries_mut().clone_from_slice(sent.boundaries());
                ns.reset_tags(sent.n_tags());
                ns.tags_mut().clone_from_slice(sent.tags());
                let mut b = String::new();
                ns.write_partial_annotation_text(&mut b);
                Some(b)
            };
            c2.corpus = c.corpus.iter().filter_map(|(k, l)| renorm(l, *k == 't').map(|x| ('p', x))).collect();
            c2.tagdict = dict_lines.iter().filter_map(|l| Sentence::from_tokenized(l).ok().map(|sent| {
                let mut ns = Sentence::from_raw(KyteaFullwidthFilter.filter(sent.as_raw_text())).unwrap();
                ns.boundaries_mut().clone_from_slice(sent.boundaries());
                ns.reset_tags(sent.n_tags());
                ns.tags_mut().clone_from_slice(sent.tags());
                let mut b = String::new();
                ns.write_tokenized_text(&mut b);
                b
            })).collect();
        }
        let lib = train_case(&c2);
        let mut problems: Vec<String> = vec![];
        if o.stderr.contains("panicked") {
            problems.push(format!("the tool panicked: {}", o.stderr.lines().find(|l| l.contains("panicked")).unwrap_or("")));
        }
        let lib_ok = lib.outcome == "ok";
        if (o.code == Some(0)) != lib_ok && !lib.outcome.starts_with("panic") {
            problems.push(format!("tool exit {:?} but the library outcome on the same data is {}", o.code, lib.outcome));
        }
        if o.code == Some(0) {
            n_ok += 1;
            match crate::cli::read_zst(&mp) {
                None => problems.push("exit 0 but no readable model file".into()),
                Some(bytes) => {
                    let mut f2 = vec![];
                    oracle_c11(&c2, &bytes, &mut f2);
                    problems.extend(f2.into_iter().map(|x| x.1));
                    match crate::model::AbsModel::from_bytes(&bytes) {
                        None => problems.push("the written model does not decode".into()),
                        Some(m) => {
                            if m.char_w != c.cw || m.type_w != c.tw {
                                problems.push(format!("window sizes {}/{} in the model, {}/{} requested", m.char_w, m.type_w, c.cw, c.tw));
                            }
                            if let Some(d) = m.dict.iter().find(|d| !words.contains(&d.0)) {
                                problems.push(format!("dictionary word {:?} is not in the dictionary files", d.0));
                            }
                            // which tokens have tag models, and with which candidate tags, does not depend on the learner
                            if let Some(lm) = lib.model.as_ref().and_then(|x| x.to_vec().ok()).and_then(|b| crate::model::AbsModel::from_bytes(&b)) {
                                let key = |x: &crate::model::AbsModel| {
                                    // up to trailing categories without candidates (how many tag slots a sentence has is not preserved by
                                    // the text form in which this step hands the normalised corpus to the library)
                                    let mut v: Vec<(String, Vec<Vec<String>>)> = x.tag_models.iter().map(|t| {
                                        let mut cats: Vec<Vec<String>> = t.tags.iter().map(|c| { let mut c = c.clone(); c.sort(); c }).collect();
                                        while cats.last().map_or(false, |c| c.is_empty()) {
                                            cats.pop();
                                        }
                                        (t.token.clone(), cats)
                                    }).filter(|x| !x.1.is_empty()).collect();
                                    v.sort();
                                    v
                                };
                                // a token that occurs in the corpus only WITHOUT tags takes its tags from the tag dictionary or not depending on
                                // whether its sentence has tag slots at all (`token.tags().is_empty()`), which the text form of this step does not
                                // preserve either (`漢カ/ カ` has one empty slot, its re-written form none): no property speaks about such tokens
                                // ("occurs with tags in the corpus, or only in the tag dictionary"), so they are left out of the comparison
                                let mut untagged_only: std::collections::BTreeMap<String, bool> = Default::default();
                                for (k, l) in &c.corpus {
                                    let sent = if *k == 't' { Sentence::from_tokenized(l) } else { Sentence::from_partial_annotation(l) };
                                    if let Ok(sent) = sent {
                                        for t in sent.iter_tokens() {
                                            let e = untagged_only.entry(norm(t.surface())).or_insert(true);
                                            if t.tags().iter().any(|x| x.is_some()) {
                                                *e = false;
                                            }
                                        }
                                    }
                                }
                                let key = |x: &crate::model::AbsModel| -> Vec<(String, Vec<Vec<String>>)> { key(x).into_iter().filter(|(t, _)| untagged_only.get(t) != Some(&true)).collect() };
                                if key(&m) != key(&lm) {
                                    problems.push(format!("the tool's model has the tag models {:?}, the library trained on the same data has {:?}", key(&m), key(&lm)));
                                }
                            }
                        }
                    }
                }
            }
        }
        if !problems.is_empty() {
            fails += 1;
            println!("FAIL case={i} no_norm={no_norm} {} :: {}", problems.join(" ; ").chars().take(600).collect::<String>(), line.chars().take(900).collect::<String>());
        }
    }
    let _ = std::fs::remove_dir_all(&dir);
    println!("cli_train runs={n} models_written={n_ok} failures={fails}");
}
