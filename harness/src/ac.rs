//! The external pattern-matching automaton (daachorse) against the contract the Lean model assumes for it (family `AC`).
//!
//!   AC <c|b|t> <patterns> <text> [oracle]
//!     c: `CharwiseDoubleArrayAhoCorasick` over strings; b: `DoubleArrayAhoCorasick` over the UTF-8 bytes of the same strings,
//!        match ends mapped to character positions; t: `DoubleArrayAhoCorasick` over character-type codes (digits)
//!     patterns := "-" | hex { "," hex }      (pattern ids are list positions)
//! Response: `err` (construction refused) | `ok:<no-suffix matches>/<all matches>/<s|S>` where a match is `end.id`, the second
//! list is sorted, and `s` says that serialise → deserialise_unchecked gives an automaton with the same matches.
//! Nothing in /repo is executed here: this validates the recorded contract of the dependency (DESIGN.md section 9).
use std::io::Write;

use daachorse::{CharwiseDoubleArrayAhoCorasick, DoubleArrayAhoCorasick};

use crate::util::{hexs, unhexs, Rng};

fn fmt(v: &[(usize, usize)]) -> String {
    v.iter().map(|(e, i)| format!("{e}.{i}")).collect::<Vec<_>>().join(",")
}

pub fn run(toks: &[&str], fails: &mut Vec<(String, String)>) -> String {
    let ["AC", kind, pats_s, text_s, ..] = toks else { return "bad-case".into() };
    let pats: Vec<String> = if *pats_s == "-" { vec![] } else { match pats_s.split(',').map(unhexs).collect::<Option<Vec<_>>>() { Some(p) => p, None => return "bad-case".into() } };
    let Some(text) = unhexs(text_s) else { return "bad-case".into() };
    let char_pos = |byte_end: usize| text[..byte_end].chars().count();
    let (nosuf, all, same): (Vec<(usize, usize)>, Vec<(usize, usize)>, bool) = match *kind {
        "c" => {
            let Ok(pma) = CharwiseDoubleArrayAhoCorasick::<u32>::new(&pats) else { return "err".into() };
            let a: Vec<_> = pma.find_overlapping_no_suffix_iter(&text).map(|m| (char_pos(m.end()), m.value() as usize)).collect();
            let mut b: Vec<_> = pma.find_overlapping_iter(&text).map(|m| (char_pos(m.end()), m.value() as usize)).collect();
            b.sort();
            let bytes = pma.serialize();
            let (p2, rest) = unsafe { CharwiseDoubleArrayAhoCorasick::<u32>::deserialize_unchecked(&bytes) };
            let a2: Vec<_> = p2.find_overlapping_no_suffix_iter(&text).map(|m| (char_pos(m.end()), m.value() as usize)).collect();
            (a.clone(), b, a2 == a && rest.is_empty())
        }
        "b" | "t" => {
            // type codes travel as the digits '1'..'6': the automaton runs over the bytes 1..6
            let conv = |s: &str| -> Vec<u8> { if *kind == "t" { s.bytes().map(|b| b - b'0').collect() } else { s.as_bytes().to_vec() } };
            let bp: Vec<Vec<u8>> = pats.iter().map(|p| conv(p)).collect();
            let Ok(pma) = DoubleArrayAhoCorasick::<u32>::new(&bp) else { return "err".into() };
            let hay = conv(&text);
            let pos = |e: usize| if *kind == "t" { e } else { char_pos(e) };
            let a: Vec<_> = pma.find_overlapping_no_suffix_iter(&hay).map(|m| (pos(m.end()), m.value() as usize)).collect();
            let mut b: Vec<_> = pma.find_overlapping_iter(&hay).map(|m| (pos(m.end()), m.value() as usize)).collect();
            b.sort();
            let bytes = pma.serialize();
            let (p2, rest) = unsafe { DoubleArrayAhoCorasick::<u32>::deserialize_unchecked(&bytes) };
            let a2: Vec<_> = p2.find_overlapping_no_suffix_iter(&hay).map(|m| (pos(m.end()), m.value() as usize)).collect();
            (a.clone(), b, a2 == a && rest.is_empty())
        }
        _ => return "bad-case".into(),
    };
    // oracle (the contract, stated directly): at every end position the no-suffix iterator reports exactly the longest
    // pattern ending there; the overlapping iterator reports every pattern ending there
    let tc: Vec<char> = text.chars().collect();
    let pc: Vec<Vec<char>> = pats.iter().map(|p| p.chars().collect()).collect();
    let mut want_all = vec![];
    let mut want_ns = vec![];
    for e in 1..=tc.len() {
        let mut best: Option<(usize, usize)> = None;
        for (id, p) in pc.iter().enumerate() {
            if p.len() <= e && tc[e - p.len()..e] == p[..] {
                want_all.push((e, id));
                if best.map_or(true, |(l, _)| p.len() > l) {
                    best = Some((p.len(), id));
                }
            }
        }
        if let Some((_, id)) = best {
            want_ns.push((e, id));
        }
    }
    if nosuf != want_ns {
        fails.push(("*".into(), format!("daachorse contract: find_overlapping_no_suffix_iter reports {nosuf:?} on {text:?} with patterns {pats:?}; the longest pattern per end position is {want_ns:?}")));
    }
    if all != want_all {
        fails.push(("*".into(), format!("daachorse contract: find_overlapping_iter reports {all:?} on {text:?} with patterns {pats:?}; all occurrences are {want_all:?}")));
    }
    if !same {
        fails.push(("*".into(), format!("daachorse contract: serialize -> deserialize_unchecked changes the matches on {text:?} with patterns {pats:?}")));
    }
    format!("ok:{}/{}/{}", fmt(&nosuf), fmt(&all), if same { "s" } else { "S" })
}

pub fn gen(out: &mut dyn Write, thorough: bool, seed: u64) {
    let mut r = Rng::new(seed ^ 0xAC);
    let n = if thorough { 6000 } else { 300 };
    for i in 0..n {
        let kind = ["c", "b", "t"][i % 3];
        let alpha: Vec<char> = if kind == "t" { vec!['1', '2', '3', '6'] } else { [vec!['a', 'b'], vec!['あ', 'a', '𠮷'], vec!['é', 'ё', 'e', '\u{301}']][(i / 3) % 3].clone() };
        let mut pats: Vec<String> = vec![];
        for _ in 0..r.range(1, 6) {
            let p: String = (0..r.range(1, 4)).map(|_| *r.pick(&alpha)).collect();
            // suffix chains: a pattern together with some of its suffixes and an extension to the left
            if r.chance(1, 2) {
                let cs: Vec<char> = p.chars().collect();
                pats.push(cs[cs.len() - 1..].iter().collect());
                pats.push(format!("{}{p}", r.pick(&alpha)));
            }
            pats.push(p);
        }
        // construction must refuse: no pattern, an empty pattern, a repeated pattern (kept now and then)
        match i % 23 {
            5 => pats.clear(),
            11 => pats.push(String::new()),
            17 => {}
            _ => {
                let mut seen = std::collections::HashSet::new();
                pats.retain(|p| seen.insert(p.clone()));
            }
        }
        let text: String = (0..r.range(0, 14)).map(|_| *r.pick(&alpha)).collect();
        let ps = if pats.is_empty() { "-".to_string() } else { pats.iter().map(|p| hexs(p)).collect::<Vec<_>>().join(",") };
        writeln!(out, "AC {kind} {ps} {} ac", hexs(&text)).unwrap();
    }
}
