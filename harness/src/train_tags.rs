//! C12 oracle: the tag models of a trained model against the tags seen in the corpus / tag dictionary, and the stored
//! tag scores against the learner's quantised classifier applied to the harness's own tag features.
use std::collections::BTreeMap;

use vaporetto::verif_hooks::TraceItem;
use vaporetto::{Model, Predictor, Sentence};

use crate::model::AbsModel;
use crate::train::{TrCase, Trained};
use crate::util::{catch, hex};

/// observed tags per token surface: category -> distinct tags in first-seen order (corpus first, then dictionary-only tokens)
fn observed(c: &TrCase) -> Option<BTreeMap<String, Vec<Vec<String>>>> {
    let mut m: BTreeMap<String, Vec<Vec<String>>> = BTreeMap::new();
    let add = |m: &mut BTreeMap<String, Vec<Vec<String>>>, surf: &str, tags: &[Option<std::borrow::Cow<str>>]| {
        let e = m.entry(surf.to_string()).or_default();
        while e.len() < tags.len() {
            e.push(vec![]);
        }
        for (j, t) in tags.iter().enumerate() {
            if let Some(t) = t {
                if !e[j].iter().any(|x| x == t.as_ref()) {
                    e[j].push(t.to_string());
                }
            }
        }
    };
    for (k, l) in &c.corpus {
        let s = if *k == 't' { Sentence::from_tokenized(l).ok()? } else { Sentence::from_partial_annotation(l).ok()? };
        if s.n_tags() == 0 {
            continue;
        }
        for tok in s.iter_tokens() {
            add(&mut m, tok.surface(), tok.tags());
        }
    }
    // dictionary-only tokens: the first dictionary entry of a surface that is absent from the corpus
    let mut seen_dict: Vec<String> = vec![];
    for l in &c.tagdict {
        let s = Sentence::from_tokenized(l).ok()?;
        for tok in s.iter_tokens() {
            let surf = tok.surface().to_string();
            if seen_dict.contains(&surf) {
                continue;
            }
            seen_dict.push(surf.clone());
            if !m.contains_key(&surf) && tok.tags().iter().any(|t| t.is_some()) {
                add(&mut m, &surf, tok.tags());
            }
        }
    }
    Some(m)
}

/// tag features of the token `[st, en)`: n-grams of length (en-st)+1 .. (en-st)+N that contain the token; rel = characters after its end
fn brute_tag_features(c: &TrCase, chars: &[char], st: usize, en: usize) -> Vec<String> {
    let n = chars.len();
    let types: Vec<u8> = chars.iter().map(|&x| vaporetto::CharacterType::get_type(x) as u8).collect();
    let mut out = vec![];
    for extra in 1..=c.cn as usize {
        let l = en - st + extra;
        for i in 0..n {
            if i <= st && i + l >= en && i + l <= n {
                let g: String = chars[i..i + l].iter().collect();
                out.push(format!("c:{}:{}", hex(g.as_bytes()), i + l - en));
            }
        }
    }
    for extra in 1..=c.tn as usize {
        let l = en - st + extra;
        for i in 0..n {
            if i <= st && i + l >= en && i + l <= n {
                let g: String = types[i..i + l].iter().map(|t| t.to_string()).collect();
                out.push(format!("t:{g}:{}", i + l - en));
            }
        }
    }
    out
}

pub fn oracle_c12(c: &TrCase, t: &Trained, bytes: &[u8], fails: &mut Vec<(String, String)>) {
    let Some(obs) = observed(c) else { return };
    let Some(m) = AbsModel::from_bytes(bytes) else {
        fails.push(("C12".into(), "the trained model cannot be decoded".into()));
        return;
    };
    // 1. candidate lists = exactly the distinct observed tags, each once; vectors sized to the trainable candidates
    let mut by_token: BTreeMap<String, &crate::model::AbsTagModel> = BTreeMap::new();
    for tm in &m.tag_models {
        if by_token.insert(tm.token.clone(), tm).is_some() {
            fails.push(("C12".into(), format!("token {:?} has two tag models", tm.token)));
            return;
        }
    }
    for (surf, cats) in &obs {
        if cats.iter().all(|c| c.is_empty()) {
            continue;
        }
        let Some(tm) = by_token.get(surf) else {
            fails.push(("C12".into(), format!("token {surf:?} was seen with tags {cats:?} but has no tag model")));
            return;
        };
        let mut a: Vec<Vec<String>> = tm.tags.clone();
        let mut b: Vec<Vec<String>> = cats.clone();
        for x in a.iter_mut().chain(b.iter_mut()) {
            x.sort();
        }
        while a.last().map_or(false, |x| x.is_empty()) {
            a.pop();
        }
        while b.last().map_or(false, |x| x.is_empty()) {
            b.pop();
        }
        if a != b {
            fails.push(("C12".into(), format!("token {surf:?}: the model lists {:?} but the tags observed in training are {cats:?}", tm.tags)));
            return;
        }
        let nc = AbsModel::n_class(&tm.tags);
        let bad_len = tm.bias.len() != nc
            || tm.char_ngrams.iter().any(|g| g.weights.iter().any(|(_, w)| w.len() != nc))
            || tm.type_ngrams.iter().any(|g| g.weights.iter().any(|(_, w)| w.len() != nc));
        if bad_len {
            fails.push(("C12".into(), format!("token {surf:?}: score vectors are not sized to the {nc} trainable candidates")));
            return;
        }
    }
    for tm in &m.tag_models {
        if !obs.contains_key(&tm.token) {
            fails.push(("C12".into(), format!("the model has a tag model for {:?}, which never occurred with tags", tm.token)));
            return;
        }
    }
    // 2. consequences on predictions, and stored scores = quantised classifier applied to the tag features
    let mut tb: BTreeMap<(String, usize), i64> = BTreeMap::new();
    let mut tf: BTreeMap<(String, usize, String), i64> = BTreeMap::new();
    for it in &t.trace_items {
        match it {
            TraceItem::TagBias(tok, off, cls, w) => {
                tb.insert((tok.clone(), off + cls), *w as i64);
            }
            TraceItem::TagFeature(tok, off, cls, f, w) => {
                tf.insert((tok.clone(), off + cls, f.clone()), *w as i64);
            }
            _ => {}
        }
    }
    let r = catch(|| {
        let (model, _) = Model::read_slice(bytes).map_err(|e| e.to_string())?;
        let mut p = Predictor::new(model, true).map_err(|e| e.to_string())?;
        p.store_tag_scores(true);
        let mut texts = c.eval.clone();
        for (k, l) in &c.corpus {
            let s = if *k == 't' { Sentence::from_tokenized(l) } else { Sentence::from_partial_annotation(l) };
            if let Ok(s) = s {
                texts.push(s.as_raw_text().to_string());
            }
        }
        // every text through a fresh sentence (variant 0) and through sentences that already carry 1, 2, … tags on every character
        // (a corpus line that is tagged again: `from_tokenized` with as many tag slots as the predictor has categories, or more, or fewer)
        // (a predictor without any tag category leaves the tag array alone — no listed property says otherwise — so no variants then)
        let maxc = obs.values().map(|c| c.len()).max().unwrap_or(0);
        let kmax = if maxc == 0 { 0 } else { maxc.min(3) + 1 };
        let variants: Vec<(String, usize)> = texts.iter().flat_map(|t| (0..=kmax).map(move |k| (t.clone(), k))).collect();
        for (text, variant) in variants {
            let mut s = if variant == 0 {
                let Ok(s) = Sentence::from_raw(text.clone()) else { continue };
                s
            } else {
                let mut tk = String::new();
                for (i, ch) in text.chars().enumerate() {
                    if i > 0 {
                        tk.push(' ');
                    }
                    if ch == ' ' || ch == '/' || ch == '\\' {
                        tk.push('\\');
                    }
                    tk.push(ch);
                    for j in 0..variant {
                        tk.push_str(&format!("/旧{j}"));
                    }
                }
                let Ok(s) = Sentence::from_tokenized(&tk) else { continue };
                s
            };
            p.predict(&mut s);
            s.fill_tags();
            let text = if variant == 0 { text } else { format!("{text} (sentence object that carried {variant} tag(s) per character before predict + fill_tags)") };
            let chars: Vec<char> = s.as_raw_text().chars().collect();
            for tok in s.iter_tokens() {
                let surf = tok.surface();
                let got: Vec<Option<String>> = tok.tags().iter().map(|t| t.as_ref().map(|x| x.to_string())).collect();
                match obs.get(surf) {
                    None => {
                        if got.iter().any(|t| t.is_some()) {
                            return Err(format!("token {surf:?} was never seen in training but got tags {got:?}"));
                        }
                    }
                    Some(cats) => {
                        for (j, cands) in cats.iter().enumerate() {
                            let g = got.get(j).cloned().flatten();
                            if cands.len() == 1 && g.as_ref() != Some(&cands[0]) {
                                return Err(format!("token {surf:?} was seen with the single tag {:?} in category {j} but got {g:?}", cands[0]));
                            }
                            if cands.len() >= 2 && !g.as_ref().map_or(false, |x| cands.contains(x)) {
                                return Err(format!("token {surf:?} got {g:?} in category {j}, not one of the observed {cands:?}"));
                            }
                            if cands.is_empty() && g.is_some() {
                                return Err(format!("token {surf:?} got {g:?} in category {j}, where no tag was observed"));
                            }
                        }
                        // categories beyond those the token was ever seen with: "a token never seen [with a tag there] gets none"
                        for (j, g) in got.iter().enumerate().skip(cats.len()) {
                            if g.is_some() {
                                return Err(format!("token {surf:?} of {text:?} got {g:?} in category {j}; it was only ever seen with {} categor{}", cats.len(), if cats.len() == 1 { "y" } else { "ies" }));
                            }
                        }
                        // stored scores
                        if let Some(tm) = by_token.get(surf) {
                            let feats = brute_tag_features(c, &chars, tok.start(), tok.end());
                            let nc = AbsModel::n_class(&tm.tags);
                            let exp: Vec<i64> = (0..nc)
                                .map(|slot| {
                                    tb.get(&(surf.to_string(), slot)).copied().unwrap_or(0)
                                        + feats.iter().map(|f| tf.get(&(surf.to_string(), slot, f.clone())).copied().unwrap_or(0)).sum::<i64>()
                                })
                                .collect();
                            let cands = tok.tag_candidates();
                            let mut gotv: Vec<i64> = vec![];
                            for (cat, inner) in tm.tags.iter().zip(&cands) {
                                if cat.len() >= 2 {
                                    gotv.extend(inner.iter().map(|(_, x)| *x as i64));
                                }
                            }
                            if gotv != exp {
                                return Err(format!(
                                    "token {surf:?} at [{},{}) of {text:?}: stored tag scores {gotv:?}, the learned classifier on the trainer's tag features gives {exp:?}",
                                    tok.start(),
                                    tok.end()
                                ));
                            }
                        }
                    }
                }
            }
        }
        Ok::<(), String>(())
    });
    match r {
        Ok(Ok(())) => {}
        Ok(Err(e)) => fails.push(("C12".into(), e)),
        Err(e) => fails.push(("C12".into(), format!("panic while using the trained tag models: {e}"))),
    }
}


/// C12 on a linearly separable corpus (generated as such): "the stored tag scores equal the learned classifier" includes that class k of
/// the learner is stored under the tag it was trained for — so, given the gold boundaries, every training sentence gets its own tags back
pub fn oracle_c12_separable(c: &TrCase, bytes: &[u8], fails: &mut Vec<(String, String)>) {
    let r = catch(|| {
        let (model, _) = Model::read_slice(bytes).map_err(|e| e.to_string())?;
        let p = Predictor::new(model, true).map_err(|e| e.to_string())?;
        for (k, l) in &c.corpus {
            if *k != 't' {
                continue;
            }
            let Ok(gold) = Sentence::from_tokenized(l) else { continue };
            let want: Vec<(String, Vec<Option<String>>)> =
                gold.iter_tokens().map(|t| (t.surface().to_string(), t.tags().iter().map(|x| x.as_ref().map(|y| y.to_string())).collect())).collect();
            let mut s = Sentence::from_raw(gold.as_raw_text().to_string()).map_err(|e| e.to_string())?;
            p.predict(&mut s);
            s.boundaries_mut().copy_from_slice(gold.boundaries());
            s.fill_tags();
            for (tok, (surf, wtags)) in s.iter_tokens().zip(&want) {
                let got: Vec<Option<String>> = tok.tags().iter().map(|x| x.as_ref().map(|y| y.to_string())).collect();
                for (j, w) in wtags.iter().enumerate() {
                    if w.is_some() && got.get(j) != Some(w) {
                        return Err(format!(
                            "separable corpus: in the training sentence {l:?} the token {surf:?} is tagged {:?} in category {j}, the corpus says {w:?} (solver {}, windows {}/{}, tag dictionary {:?})",
                            got.get(j), c.solver, c.cw, c.tw, c.tagdict
                        ));
                    }
                }
            }
        }
        Ok(())
    });
    match r {
        Ok(Ok(())) => {}
        Ok(Err(e)) => fails.push(("C12".into(), e)),
        Err(e) => fails.push(("C12".into(), format!("tagging the training corpus panicked: {e}"))),
    }
}
