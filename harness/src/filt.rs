//! C15: sentence filters — pointwise rule recomputed independently, frame, idempotence
use std::borrow::Cow;

use unicode_segmentation::UnicodeSegmentation;
use vaporetto::{CharacterBoundary as CB, Sentence};
use vaporetto_rules::SentenceFilter;

use crate::sent::{labels_str, obs_sel, parse_rules, spec_spans};
use crate::util::catch;

pub fn cluster_lengths(text: &str) -> Vec<usize> {
    text.graphemes(true).map(|g| g.chars().count()).collect()
}

#[allow(clippy::too_many_arguments)]
pub fn oracle_c15(
    op: &[&str],
    b0: &[CB],
    t0: &[Option<Cow<str>>],
    s: &mut Sentence,
    r: &str,
    filt: &dyn SentenceFilter,
    before_ty: &str,
    fails: &mut Vec<(String, String)>,
) {
    let name = op.join(":");
    if r != "ok" {
        fails.push(("C15".into(), format!("filter {name} panicked")));
        return;
    }
    if obs_sel(s, "TYK") != before_ty {
        fails.push(("C15".into(), format!("filter {name} changed text, character types or tag count: {before_ty} -> {}", obs_sel(s, "TYK"))));
        return;
    }
    let chars: Vec<char> = s.as_raw_text().chars().collect();
    let types = s.char_types().to_vec();
    let mut exp_b = b0.to_vec();
    let mut exp_t: Vec<Option<String>> = t0.iter().map(|t| t.as_ref().map(|c| c.to_string())).collect();
    match op {
        ["ws", t] => {
            let t: u8 = t.parse().unwrap_or(0);
            for i in 0..exp_b.len() {
                if types[i] == t && types[i + 1] == t {
                    exp_b[i] = CB::NotWordBoundary;
                }
            }
        }
        ["lb"] => {
            for i in 0..exp_b.len() {
                if matches!(chars[i], '\r' | '\n') || matches!(chars[i + 1], '\r' | '\n') {
                    exp_b[i] = CB::WordBoundary;
                }
            }
        }
        ["gc", ls] => {
            let real = cluster_lengths(s.as_raw_text());
            let given: Vec<usize> = if *ls == "-" { vec![] } else { ls.split('.').filter_map(|x| x.parse().ok()).collect() };
            if real != given {
                fails.push(("C15".into(), format!("harness: cluster lengths in the case {given:?} differ from the crate's {real:?}")));
                return;
            }
            let mut pos = 0;
            for l in real {
                for i in pos..pos + l - 1 {
                    exp_b[i] = CB::NotWordBoundary;
                }
                pos += l;
            }
        }
        ["tag", rs] => {
            let rules = parse_rules(rs).unwrap_or_default();
            let n = s.n_tags();
            for (st, en) in spec_spans(b0) {
                let surface: String = chars[st..en].iter().collect();
                if let Some(tags) = rules.get(&surface) {
                    for j in 0..n {
                        let slot = (en - 1) * n + j;
                        if slot < exp_t.len() && exp_t[slot].is_none() {
                            exp_t[slot] = tags.get(j).cloned().flatten();
                        }
                    }
                }
            }
        }
        _ => return,
    }
    let got_t: Vec<Option<String>> = s.tags().iter().map(|t| t.as_ref().map(|c| c.to_string())).collect();
    if s.boundaries() != &exp_b[..] {
        let e: String = exp_b.iter().map(|&b| crate::sent::label_char(b)).collect();
        fails.push(("C15".into(), format!("filter {name} on {:?}: boundaries {} but the rule gives {e}", s.as_raw_text(), labels_str(s))));
        return;
    }
    if got_t != exp_t {
        fails.push(("C15".into(), format!("filter {name} on {:?}: tags {got_t:?} but the rule gives {exp_t:?}", s.as_raw_text())));
        return;
    }
    // idempotence
    let once = obs_sel(s, "TYBKG");
    if catch(|| filt.filter(s)).is_err() {
        fails.push(("C15".into(), format!("filter {name} panicked on its own output")));
        return;
    }
    let twice = obs_sel(s, "TYBKG");
    if once != twice {
        fails.push(("C15".into(), format!("filter {name} is not idempotent: {once} -> {twice}")));
    }
}
