//! `S op,op,…` — a history of operations on one `Sentence` object, executed on the real code.
//! The observation strings must be byte-identical to `Driver/Sent.lean`.
use vaporetto::{CharacterBoundary, Sentence};

use crate::util::{catch, hexs, unhexs};

pub fn label_char(b: CharacterBoundary) -> char {
    match b {
        CharacterBoundary::NotWordBoundary => 'N',
        CharacterBoundary::WordBoundary => 'W',
        CharacterBoundary::Unknown => 'U',
    }
}

pub fn label_of(c: char) -> Option<CharacterBoundary> {
    match c {
        'N' => Some(CharacterBoundary::NotWordBoundary),
        'W' => Some(CharacterBoundary::WordBoundary),
        'U' => Some(CharacterBoundary::Unknown),
        _ => None,
    }
}

pub fn type_of(t: u8) -> Option<vaporetto::CharacterType> {
    use vaporetto::CharacterType::*;
    Some(match t {
        1 => Digit,
        2 => Roman,
        3 => Hiragana,
        4 => Katakana,
        5 => Kanji,
        6 => Other,
        _ => return None,
    })
}

pub fn parse_rules(rs: &str) -> Option<hashbrown::HashMap<String, Vec<Option<String>>>> {
    let mut m = hashbrown::HashMap::new();
    if rs == "-" {
        return Some(m);
    }
    for r in rs.split('/') {
        let (k, ts) = r.split_once('=')?;
        let k = unhexs(k)?;
        let mut v = vec![];
        if !ts.is_empty() {
            for t in ts.split('+') {
                v.push(if t == "~" { None } else { Some(unhexs(t)?) });
            }
        }
        m.insert(k, v);
    }
    Some(m)
}

fn show_tag(t: &Option<std::borrow::Cow<str>>) -> String {
    match t {
        None => "~".into(),
        Some(t) => hexs(t),
    }
}

pub fn labels_str(s: &Sentence) -> String {
    if s.boundaries().is_empty() {
        "-".into()
    } else {
        s.boundaries().iter().map(|&b| label_char(b)).collect()
    }
}

/// `X <hex text> [c03|c04]`: every character a token of its own, tagged with itself; both writers and what both parsers
/// read back (escaping of every scalar value in surface and tag position, in both formats)
pub fn run_x(h: &str, oracle: &str, fails: &mut Vec<(String, String)>) -> String {
    use std::borrow::Cow;
    let Some(text) = crate::util::unhexs(h) else { return "bad-case".into() };
    let built = catch(|| {
        let mut s = Sentence::from_raw(text.clone()).map_err(|_| ())?;
        for b in s.boundaries_mut() {
            *b = vaporetto::CharacterBoundary::WordBoundary;
        }
        s.reset_tags(1);
        for (i, c) in text.chars().enumerate() {
            s.tags_mut()[i] = Some(Cow::Owned(c.to_string()));
        }
        let mut w = String::new();
        s.write_tokenized_text(&mut w);
        let mut p = String::new();
        s.write_partial_annotation_text(&mut p);
        Ok::<_, ()>((w, p))
    });
    let (w, p) = match built {
        Ok(Ok(x)) => x,
        Ok(Err(())) => return "err".into(),
        Err(_) => return "panic".into(),
    };
    let back = |r: Result<Result<Sentence, vaporetto::errors::VaporettoError>, String>| -> String {
        match r {
            Ok(Ok(t)) => format!(
                "T{};B{};K{};G{}",
                hexs(t.as_raw_text()),
                t.boundaries().iter().map(|&b| label_char(b)).collect::<String>(),
                t.n_tags(),
                t.tags().iter().map(show_tag).collect::<Vec<_>>().join(".")
            ),
            Ok(Err(_)) => "err".into(),
            Err(_) => "panic".into(),
        }
    };
    let wb = back(catch(|| Sentence::from_tokenized(&w)));
    let pb = back(catch(|| Sentence::from_partial_annotation(&p)));
    let want = format!(
        "T{};B{};K1;G{}",
        hexs(&text),
        "W".repeat(text.chars().count().saturating_sub(1)),
        text.chars().map(|c| hexs(&c.to_string())).collect::<Vec<_>>().join(".")
    );
    if oracle == "c03" && wb != want {
        let k = text.chars().zip(0..).find(|(c, _)| !wb.contains(&hexs(&c.to_string()))).map(|x| x.0);
        fails.push(("C03".into(), format!("a sentence of one-character tokens tagged with themselves does not survive write_tokenized_text + from_tokenized (first suspicious character {k:?}): written {w:?}")));
    }
    if oracle == "c04" && pb != want {
        fails.push(("C04".into(), format!("a sentence of one-character tokens tagged with themselves does not survive write_partial_annotation_text + from_partial_annotation: written {p:?}")));
    }
    format!("W{}|P{}|{wb}|{pb}", hexs(&w), hexs(&p))
}

/// every public observation of a sentence, each taken under `catch_unwind`
pub fn obs(s: &Sentence) -> String {
    obs_sel(s, "")
}

/// observation restricted to the fields whose tag letter occurs in `sel` (all fields when empty)
pub fn obs_sel(s: &Sentence, sel: &str) -> String {
    let want = |c: char| sel.is_empty() || sel.contains(c);
    let mut parts: Vec<String> = vec![];
    if want('T') {
        parts.push(format!("T{}", hexs(s.as_raw_text())));
    }
    if want('Y') {
        parts.push(format!("Y{}", s.char_types().iter().map(|t| format!("{t:x}")).collect::<String>()));
    }
    if want('B') {
        parts.push(format!("B{}", labels_str(s)));
    }
    if want('S') { parts.push(match catch(|| s.boundary_scores().iter().map(|x| x.to_string()).collect::<Vec<_>>().join(".")) {
        Ok(x) => format!("S{x}"),
        Err(_) => "S!panic".into(),
    }); }
    if want('K') {
        parts.push(format!("K{}", s.n_tags()));
    }
    if want('G') {
        parts.push(format!("G{}", s.tags().iter().map(show_tag).collect::<Vec<_>>().join(".")));
    }
    if want('I') { parts.push(match catch(|| {
        let show = |t: &vaporetto::Token| {
            format!(
                "{}-{}-{}-{}",
                t.start(),
                t.end(),
                hexs(t.surface()),
                t.tags().iter().map(show_tag).collect::<Vec<_>>().join("+")
            )
        };
        // the reference enumeration uses `next()`; every other way of consuming the iterator must give the same tokens:
        // internal iteration (`for_each`/`fold`), `count`, `last`, and `next()` for the first k tokens followed by internal
        // iteration for the rest
        let mut it = s.iter_tokens();
        let mut via_next: Vec<String> = vec![];
        while let Some(t) = it.next() {
            via_next.push(show(&t));
        }
        let mut consistent = s.iter_tokens().count() == via_next.len() && s.iter_tokens().last().map(|t| show(&t)) == via_next.last().cloned();
        for k in 0..=via_next.len() {
            let mut it = s.iter_tokens();
            let mut got: Vec<String> = vec![];
            for _ in 0..k {
                if let Some(t) = it.next() {
                    got.push(show(&t));
                }
            }
            it.for_each(|t| got.push(show(&t)));
            consistent &= got == via_next;
        }
        if consistent { via_next.join(".") } else { format!("!inconsistent-iteration:{}", via_next.join(".")) }
    }) {
        Ok(x) => format!("I{x}"),
        Err(_) => "I!panic".into(),
    }); }
    if want('W') { parts.push(match catch(|| {
        let mut buf = String::new();
        s.write_tokenized_text(&mut buf);
        // the caller's buffer is overwritten, whatever it held, and a second call gives the same text
        let mut used = String::from("zz /x\\");
        s.write_tokenized_text(&mut used);
        let mut again = buf.clone();
        s.write_tokenized_text(&mut again);
        if used != buf || again != buf {
            buf = format!("!depends-on-buffer:{buf}|{used}|{again}");
        }
        buf
    }) {
        Ok(x) => match std::str::from_utf8(x.as_bytes()) {
            Ok(_) => format!("W{}", hexs(&x)),
            Err(_) => "W!ub".into(),
        },
        Err(_) => "W!panic".into(),
    }); }
    if want('P') { parts.push(match catch(|| {
        let mut buf = String::new();
        s.write_partial_annotation_text(&mut buf);
        let mut used = String::from("a-b|c /t");
        s.write_partial_annotation_text(&mut used);
        if used != buf {
            buf = format!("!depends-on-buffer:{buf}|{used}");
        }
        buf
    }) {
        Ok(x) => format!("P{}", hexs(&x)),
        Err(_) => "P!panic".into(),
    }); }
    if !want('C') {
        return parts.join(";");
    }
    // tag candidates per token (panics when no scores were stored)
    let spans: Vec<(usize, usize)> = catch(|| s.iter_tokens().map(|t| (t.start(), t.end())).collect()).unwrap_or_default();
    let mut cands = vec![];
    let mut it = s.iter_tokens();
    for _ in 0..spans.len() {
        let Ok(Some(tok)) = catch(|| it.next()) else { break };
        cands.push(match catch(|| tok.tag_candidates()) {
            Ok(cs) => cs
                .iter()
                .map(|inner| inner.iter().map(|(t, x)| format!("{}={}", hexs(t), x)).collect::<Vec<_>>().join("+"))
                .collect::<Vec<_>>()
                .join("/"),
            Err(_) => "!p".into(),
        });
    }
    parts.push(format!("C{}", cands.join(".")));
    parts.join(";")
}

/// expected token spans computed independently from the labels: maximal W-delimited segments without U
pub fn spec_spans(bs: &[CharacterBoundary]) -> Vec<(usize, usize)> {
    let n = bs.len() + 1;
    let mut out = vec![];
    let mut start = 0;
    let mut dirty = false;
    for (i, &b) in bs.iter().enumerate() {
        match b {
            CharacterBoundary::WordBoundary => {
                if !dirty {
                    out.push((start, i + 1));
                }
                start = i + 1;
                dirty = false;
            }
            CharacterBoundary::Unknown => dirty = true,
            CharacterBoundary::NotWordBoundary => {}
        }
    }
    if !dirty {
        out.push((start, n));
    }
    out
}

fn esc_tok(s: &str, out: &mut String) {
    for c in s.chars() {
        if c == ' ' || c == '\\' || c == '/' {
            out.push('\\');
        }
        out.push(c);
    }
}

fn trim_tags<'x, 'y>(ts: &'x [Option<std::borrow::Cow<'y, str>>]) -> &'x [Option<std::borrow::Cow<'y, str>>] {
    let k = ts.iter().rposition(|x| x.is_some()).map_or(0, |x| x + 1);
    &ts[..k]
}

/// C02 oracle on the final sentence of the history
fn oracle_c02(s: &Sentence, fails: &mut Vec<(String, String)>) {
    let chars: Vec<char> = s.as_raw_text().chars().collect();
    let expected = spec_spans(s.boundaries());
    let got = catch(|| s.iter_tokens().map(|t| (t.start(), t.end(), t.surface().to_string())).collect::<Vec<_>>());
    let got = match got {
        Ok(g) => g,
        Err(m) => {
            fails.push(("C02".into(), format!("iter_tokens panicked: {m}")));
            return;
        }
    };
    let exp_full: Vec<(usize, usize, String)> =
        expected.iter().map(|&(a, b)| (a, b, chars[a..b].iter().collect())).collect();
    // every way of consuming the iterator reports the same tokens (internal iteration, count, last, mixed)
    let other_ways = catch(|| {
        let mut bad: Option<String> = None;
        if s.iter_tokens().count() != got.len() {
            bad = Some(format!("count() = {} but next() yields {} tokens", s.iter_tokens().count(), got.len()));
        }
        for k in 0..=got.len() {
            let mut it = s.iter_tokens();
            let mut v = vec![];
            for _ in 0..k {
                if let Some(t) = it.next() {
                    v.push((t.start(), t.end(), t.surface().to_string()));
                }
            }
            it.for_each(|t| v.push((t.start(), t.end(), t.surface().to_string())));
            if v != got && bad.is_none() {
                bad = Some(format!("{k} tokens by next() then for_each gives {v:?}, next() alone gives {got:?}"));
            }
        }
        bad
    });
    match other_ways {
        Ok(Some(b)) => fails.push(("C02".into(), format!("the token iterator is not consistent: {b}"))),
        Err(m) => fails.push(("C02".into(), format!("iter_tokens panicked under internal iteration: {m}"))),
        _ => {}
    }
    if got != exp_full {
        fails.push(("C02".into(), format!("tokens {got:?} != word-boundary-delimited unknown-free segments {exp_full:?}")));
        return;
    }
    let no_unknown = s.boundaries().iter().all(|&b| b != CharacterBoundary::Unknown);
    if no_unknown {
        let mut ok = !got.is_empty() && got[0].0 == 0 && got.last().unwrap().1 == chars.len();
        for w in got.windows(2) {
            ok &= w[0].1 == w[1].0;
        }
        for t in &got {
            ok &= t.0 < t.1;
        }
        let breaks: Vec<usize> = got.iter().skip(1).map(|t| t.0).collect();
        let wb: Vec<usize> = s
            .boundaries()
            .iter()
            .enumerate()
            .filter(|(_, &b)| b == CharacterBoundary::WordBoundary)
            .map(|(i, _)| i + 1)
            .collect();
        ok &= breaks == wb;
        let concat: String = got.iter().map(|t| t.2.as_str()).collect();
        ok &= concat == s.as_raw_text();
        if !ok {
            fails.push(("C02".into(), format!("tokens {got:?} are not an ordered lossless partition")));
        }
    }
    // the tokenized writer emits exactly those tokens
    let w = catch(|| {
        let mut buf = String::new();
        s.write_tokenized_text(&mut buf);
        buf
    });
    match w {
        Err(m) => fails.push(("C02".into(), format!("write_tokenized_text panicked: {m}"))),
        Ok(w) => {
            let mut exp = String::new();
            let n_tags = s.n_tags();
            for (k, (a, b, surf)) in exp_full.iter().enumerate() {
                let _ = a;
                if k != 0 {
                    exp.push(' ');
                }
                esc_tok(surf, &mut exp);
                if s.tags().len() >= b * n_tags {
                    for t in trim_tags(&s.tags()[(b - 1) * n_tags..b * n_tags]) {
                        exp.push('/');
                        if let Some(t) = t {
                            esc_tok(t, &mut exp);
                        }
                    }
                }
            }
            if w != exp {
                fails.push(("C02".into(), format!("write_tokenized_text {w:?} != expected {exp:?}")));
            }
        }
    }
}

fn token_tags(s: &Sentence) -> Vec<Vec<Option<String>>> {
    s.iter_tokens()
        .map(|t| trim_tags(t.tags()).iter().map(|x| x.as_ref().map(|c| c.to_string())).collect())
        .collect()
}

/// sentence objects with a past: tags in several categories from either parser, a failed update in the middle of a tagged
/// line (either format), a raw text; the round-trip oracles re-parse the written text into each of them
fn used_sentences() -> Vec<Sentence<'static, 'static>> {
    let mut v = Vec::new();
    v.push(Sentence::from_tokenized("ab/x/y/z c/p/q/r d/s/t/u efg/v/w/x").unwrap());
    v.push(Sentence::from_partial_annotation("a/x/y-b/z|c/p/q d/r/s/t|e/u").unwrap());
    let mut s = Sentence::from_tokenized("xy/k/l/m z/n/o/p").unwrap();
    let _ = s.update_partial_annotation("a/t1/t2|b/t3/t4 c#d");   // fails at `#`, after five tags have been read
    v.push(s);
    let mut s = Sentence::from_partial_annotation("a/x|b/y|c/z").unwrap();
    let _ = s.update_tokenized("a/t1/t2 b/t3/t4  c");
    v.push(s);
    let mut s = Sentence::from_tokenized("a/x/y b/z/w").unwrap();
    let _ = s.update_partial_annotation("a/t1/t2|b/t3\0|c");
    let _ = s.update_raw("pqrs");
    v.push(s);
    v
}

fn oracle_c03rt(s: &Sentence, fails: &mut Vec<(String, String)>) {
    let r = catch(|| {
        let mut buf = String::new();
        s.write_tokenized_text(&mut buf);
        if std::str::from_utf8(buf.as_bytes()).is_err() {
            return Err("written text is not valid UTF-8".to_string());
        }
        let s2 = Sentence::from_tokenized(&buf).map_err(|e| format!("written text {buf:?} rejected: {e}"))?;
        if s2.as_raw_text() != s.as_raw_text() {
            return Err(format!("text {:?} -> {:?} via {buf:?}", s.as_raw_text(), s2.as_raw_text()));
        }
        if s2.boundaries() != s.boundaries() {
            return Err(format!("boundaries {} -> {} via {buf:?}", labels_str(s), labels_str(&s2)));
        }
        let (a, b) = (token_tags(s), token_tags(&s2));
        if a != b {
            return Err(format!("token tags {a:?} -> {b:?} via {buf:?}"));
        }
        // the same through the in-place parser, on sentence objects that held something else before
        for (k, mut u) in used_sentences().into_iter().enumerate() {
            u.update_tokenized(buf.as_str()).map_err(|e| format!("written text {buf:?} rejected by update_tokenized (used sentence #{k}): {e}"))?;
            if u.as_raw_text() != s.as_raw_text() || u.boundaries() != s.boundaries() || token_tags(&u) != a {
                return Err(format!(
                    "update_tokenized({buf:?}) on used sentence #{k}: text {:?} labels {} token tags {:?}, written from text {:?} labels {} token tags {a:?}",
                    u.as_raw_text(), labels_str(&u), token_tags(&u), s.as_raw_text(), labels_str(s)));
            }
        }
        Ok(())
    });
    match r {
        Ok(Ok(())) => {}
        Ok(Err(m)) => fails.push(("C03".into(), m)),
        Err(m) => fails.push(("C03".into(), format!("panic: {m}"))),
    }
}

fn oracle_c03idem(s: &Sentence, fails: &mut Vec<(String, String)>) {
    let r = catch(|| {
        let mut w1 = String::new();
        s.write_tokenized_text(&mut w1);
        let s2 = Sentence::from_tokenized(&w1).map_err(|e| format!("write-after-parse output {w1:?} rejected: {e}"))?;
        let mut w2 = String::new();
        s2.write_tokenized_text(&mut w2);
        if w1 != w2 {
            return Err(format!("write-after-parse not idempotent: {w1:?} -> {w2:?}"));
        }
        Ok(())
    });
    match r {
        Ok(Ok(())) => {}
        Ok(Err(m)) => fails.push(("C03".into(), m)),
        Err(m) => fails.push(("C03".into(), format!("panic: {m}"))),
    }
}

fn char_tags(s: &Sentence) -> Vec<Vec<Option<String>>> {
    let n = s.n_tags();
    let chars = s.as_raw_text().chars().count();
    (0..chars)
        .map(|i| {
            if n == 0 {
                vec![]
            } else {
                trim_tags(&s.tags()[i * n..(i + 1) * n]).iter().map(|x| x.as_ref().map(|c| c.to_string())).collect()
            }
        })
        .collect()
}

fn oracle_c04rt(s: &Sentence, fails: &mut Vec<(String, String)>) {
    let r = catch(|| {
        let mut buf = String::new();
        s.write_partial_annotation_text(&mut buf);
        let s2 = Sentence::from_partial_annotation(&buf).map_err(|e| format!("written text {buf:?} rejected: {e}"))?;
        if s2.as_raw_text() != s.as_raw_text() {
            return Err(format!("text {:?} -> {:?} via {buf:?}", s.as_raw_text(), s2.as_raw_text()));
        }
        if s2.boundaries() != s.boundaries() {
            return Err(format!("labels {} -> {} via {buf:?}", labels_str(s), labels_str(&s2)));
        }
        let (a, b) = (char_tags(s), char_tags(&s2));
        if a != b {
            return Err(format!("character tags {a:?} -> {b:?} via {buf:?}"));
        }
        // the same through the in-place parser, on sentence objects that held something else before
        for (k, mut u) in used_sentences().into_iter().enumerate() {
            u.update_partial_annotation(buf.as_str()).map_err(|e| format!("written text {buf:?} rejected by update_partial_annotation (used sentence #{k}): {e}"))?;
            if u.as_raw_text() != s.as_raw_text() || u.boundaries() != s.boundaries() || char_tags(&u) != a {
                return Err(format!(
                    "update_partial_annotation({buf:?}) on used sentence #{k}: text {:?} labels {} character tags {:?}, written from text {:?} labels {} character tags {a:?}",
                    u.as_raw_text(), labels_str(&u), char_tags(&u), s.as_raw_text(), labels_str(s)));
            }
        }
        Ok(())
    });
    match r {
        Ok(Ok(())) => {}
        Ok(Err(m)) => fails.push(("C04".into(), m)),
        Err(m) => fails.push(("C04".into(), format!("panic: {m}"))),
    }
}

pub fn run_sent(ops: &str, oracle: &str, fails: &mut Vec<(String, String)>) -> String {
    run_hist(&[], &[], &[], ops, oracle, fails)
}

/// `H cfg preds ops`: the same histories with predictors available (`pred:<k>`, `fill`, `spec:<k>`)
pub fn run_hist<'p>(
    preds: &'p [Option<vaporetto::Predictor>],
    models: &[crate::model::AbsModel],
    pred_flags: &[bool],
    ops: &str,
    oracle: &str,
    fails: &mut Vec<(String, String)>,
) -> String {
    let mut s: Sentence<'static, 'p> = Sentence::default();
    let mut last_pred: Option<usize> = None;
    let mut filled = false;
    let mut cur_pred: Option<usize> = None; // the predictor the sentence currently refers to
    let mut out: Vec<String> = vec![];
    let c05 = oracle == "c05";
    let default_obs = if c05 { obs(&Sentence::default()) } else { String::new() };
    for op in ops.split(',') {
        let f: Vec<&str> = op.split(':').collect();
        if matches!(f[0], "new" | "raw" | "tok" | "part" | "Fraw" | "Ftok" | "Fpart") {
            cur_pred = None;
        }
        if matches!(f[0], "new" | "raw" | "tok" | "part" | "Fraw" | "Ftok" | "Fpart" | "reset" | "sett") {
            last_pred = None;
            filled = false;
        }
        if matches!(f[0], "setb" | "setbs" | "filter") {
            filled = false; // the tags describe the boundaries they were filled for
        }
        let r: String = match f.as_slice() {
            ["obs"] | ["obs", _] => {
                let o = obs_sel(&s, f.get(1).copied().unwrap_or(""));
                if c05 && o.contains("!panic") {
                    fails.push(("C05".into(), format!("an accessor, writer or iterator panicked: {o}")));
                }
                o
            }
            ["new"] => {
                s = Sentence::default();
                "ok".into()
            }
            [k @ ("raw" | "tok" | "part"), h] => {
                let Some(text) = unhexs(h) else { return "bad-op".into() };
                let t2 = text.clone();
                // both forms of `impl Into<Cow<str>>`: an owned String, or (texts of odd byte length) a borrowed &str
                let borrowed: Option<&'static str> = if *k == "raw" && text.len() % 2 == 1 { Some(Box::leak(text.clone().into_boxed_str())) } else { None };
                let res = catch(|| match *k {
                    "raw" => match borrowed {
                        Some(b) => s.update_raw(b),
                        None => s.update_raw(t2),
                    },
                    "tok" => s.update_tokenized(&t2),
                    _ => s.update_partial_annotation(&t2),
                });
                match res {
                    Ok(Ok(())) => {
                        if c05 {
                            let fresh = catch(|| match *k {
                                "raw" => Sentence::from_raw(text.clone()),
                                "tok" => Sentence::from_tokenized(&text),
                                _ => Sentence::from_partial_annotation(&text),
                            });
                            match fresh {
                                Ok(Ok(f)) => {
                                    let (a, b) = (obs(&s), obs(&f));
                                    if a != b {
                                        fails.push(("C05".into(), format!("update_{k}({text:?}) on a used sentence observes {a} but a fresh sentence observes {b}")));
                                    }
                                }
                                Ok(Err(_)) => fails.push(("C05".into(), format!("update_{k}({text:?}) succeeded but from_{k} failed"))),
                                Err(m) => fails.push(("C05".into(), format!("from_{k}({text:?}) panicked: {m}"))),
                            }
                        }
                        "ok".into()
                    }
                    Ok(Err(_)) => {
                        if c05 {
                            let a = obs(&s);
                            if a != default_obs {
                                fails.push(("C05".into(), format!("after failed update_{k}({text:?}) the sentence observes {a}, not the default sentence {default_obs}")));
                            }
                        }
                        "err".into()
                    }
                    Err(m) => {
                        if c05 {
                            fails.push(("C05".into(), format!("update_{k}({text:?}) panicked: {m}")));
                        }
                        "panic".into()
                    }
                }
            }
            [k @ ("Fraw" | "Ftok" | "Fpart"), h] => {
                let Some(text) = unhexs(h) else { return "bad-op".into() };
                let res = catch(|| match *k {
                    "Fraw" if text.len() % 2 == 1 => {
                        let b: &'static str = Box::leak(text.clone().into_boxed_str());
                        Sentence::from_raw(b)
                    }
                    "Fraw" => Sentence::from_raw(text.clone()),
                    "Ftok" => Sentence::from_tokenized(&text),
                    _ => Sentence::from_partial_annotation(&text),
                });
                match res {
                    Ok(Ok(ns)) => {
                        s = ns;
                        "ok".into()
                    }
                    Ok(Err(_)) => "err".into(),
                    Err(m) => {
                        if c05 {
                            fails.push(("C05".into(), format!("{k}({text:?}) panicked: {m}")));
                        }
                        "panic".into()
                    }
                }
            }
            ["pred", k] => {
                let Ok(k) = k.parse::<usize>() else { return "bad-op".into() };
                let Some(Some(p)) = preds.get(k) else { return "bad-op".into() };
                match catch(|| p.predict(&mut s)) {
                    Ok(()) => {
                        last_pred = Some(k);
                        cur_pred = Some(k);
                        filled = false;
                        "ok".into()
                    }
                    Err(_) => "panic".into(),
                }
            }
            // fill_tags() after predict() with a predictor built with predict_tags = false is a documented panic
            ["fill"] if cur_pred.map_or(false, |k| !pred_flags.get(k).copied().unwrap_or(true)) => "nofill".into(),
            ["fill"] => match catch(|| s.fill_tags()) {
                Ok(()) => {
                    filled = true;
                    "ok".into()
                }
                Err(msg) => {
                    // `fill_tags` after a prediction by a predictor built with tag prediction must not panic on a well-formed model
                    // (the documented panic — a predictor without tag prediction — is answered `nofill` above)
                    if oracle == "c06" {
                        if let Some(k) = cur_pred {
                            if models.get(k).map_or(false, |m| m.well_formed() && m.tags_well_formed()) {
                                fails.push(("C06".into(), format!("fill_tags() panicked on text {:?} after a prediction by a tag-predicting predictor: {}", s.as_raw_text(), msg.chars().take(200).collect::<String>())));
                            }
                        }
                    }
                    "panic".into()
                }
            },
            ["spec", k] => {
                let Ok(k) = k.parse::<usize>() else { return "bad-op".into() };
                let Some(m) = models.get(k) else { return "bad-op".into() };
                format!("Z{}", m.spec_scores(s.as_raw_text()).iter().map(|x| x.to_string()).collect::<Vec<_>>().join("."))
            }
            ["filter", rest @ ..] => {
                use vaporetto_rules::{sentence_filters::*, SentenceFilter};
                let before = if oracle == "c15" {
                    Some((obs_sel(&s, "TYK"), s.boundaries().to_vec(), s.tags().iter().map(|t| t.as_ref().map(|c| std::borrow::Cow::Owned(c.to_string()))).collect::<Vec<Option<std::borrow::Cow<str>>>>()))
                } else {
                    None
                };
                let filt: Option<Box<dyn SentenceFilter>> = match rest {
                    ["ws", t] => t.parse::<u8>().ok().and_then(type_of).map(|t| Box::new(KyteaWsConstFilter::new(t)) as Box<dyn SentenceFilter>),
                    ["lb"] => Some(Box::new(SplitLinebreaksFilter)),
                    ["gc", _] => Some(Box::new(ConcatGraphemeClustersFilter)),
                    ["tag", rs] => parse_rules(rs).map(|r| Box::new(PatternMatchTagger::new(r)) as Box<dyn SentenceFilter>),
                    _ => None,
                };
                let Some(filt) = filt else { return "bad-op".into() };
                let r = match catch(|| filt.filter(&mut s)) {
                    Ok(()) => "ok".to_string(),
                    Err(_) => "panic".to_string(),
                };
                if let Some((ty, b0, t0)) = before {
                    crate::filt::oracle_c15(rest, &b0, &t0, &mut s, &r, filt.as_ref(), &ty, fails);
                }
                r
            }
            ["tspec", k] => {
                let Ok(k) = k.parse::<usize>() else { return "bad-op".into() };
                let Some(m) = models.get(k) else { return "bad-op".into() };
                let items: Vec<String> = spec_spans(s.boundaries())
                    .iter()
                    .map(|&(st, en)| {
                        let (row, scores) = m.tag_spec(s.as_raw_text(), st, en);
                        format!(
                            "{}={}={}",
                            en,
                            row.iter().map(|t| t.as_ref().map_or("~".to_string(), |t| hexs(t))).collect::<Vec<_>>().join("+"),
                            scores.iter().map(|x| x.to_string()).collect::<Vec<_>>().join(":")
                        )
                    })
                    .collect();
                format!("X{}", items.join("."))
            }
            ["reset", k] => {
                let Ok(k) = k.parse::<usize>() else { return "bad-op".into() };
                match catch(|| s.reset_tags(k)) {
                    Ok(()) => "ok".into(),
                    Err(m) => {
                        if c05 {
                            fails.push(("C05".into(), format!("reset_tags({k}) panicked: {m}")));
                        }
                        "panic".into()
                    }
                }
            }
            ["setbs", ls] => {
                let labels: Vec<CharacterBoundary> =
                    if *ls == "-" { vec![] } else { ls.chars().filter_map(label_of).collect() };
                if labels.len() == s.boundaries().len() {
                    s.boundaries_mut().copy_from_slice(&labels);
                    "ok".into()
                } else {
                    "badlen".into()
                }
            }
            ["setb", i, b] => {
                let (Ok(i), Some(b)) = (i.parse::<usize>(), b.chars().next().and_then(label_of)) else {
                    return "bad-op".into();
                };
                if i < s.boundaries().len() {
                    s.boundaries_mut()[i] = b;
                    "ok".into()
                } else {
                    "oob".into()
                }
            }
            ["sett", i, h] => {
                let Ok(i) = i.parse::<usize>() else { return "bad-op".into() };
                let t = if *h == "~" {
                    None
                } else {
                    match unhexs(h) {
                        // both representations of a tag: owned, or (tags of odd byte length) borrowed
                        Some(t) if t.len() % 2 == 1 => Some(std::borrow::Cow::Borrowed(&*Box::leak(t.into_boxed_str()))),
                        Some(t) => Some(std::borrow::Cow::Owned(t)),
                        None => return "bad-op".into(),
                    }
                };
                if i < s.tags().len() {
                    s.tags_mut()[i] = t;
                    "ok".into()
                } else {
                    "oob".into()
                }
            }
            _ => return "bad-op".into(),
        };
        out.push(r);
    }
    match oracle {
        "c01" => {
            if let Some(k) = last_pred {
                crate::pred::oracle_c01(&s, &models[k], fails);
            }
        }
        "c06" => {
            if let (Some(k), true) = (last_pred, filled) {
                crate::pred::oracle_c06(&s, &models[k], fails);
            }
        }
        "c08" => {
            let all: Vec<&str> = ops.split(',').collect();
            if out.iter().any(|o| o == "panic") {
                let i = out.iter().position(|o| o == "panic").unwrap();
                fails.push(("C08".into(), format!("operation {} ({}) of the history panicked", i, all.get(i).copied().unwrap_or("?"))));
            } else if let Some(i) = all.iter().rposition(|o| o.starts_with("raw:")) {
                let tail = all[i..].join(",");
                let mut dummy = vec![];
                let fresh = run_hist(preds, models, pred_flags, &format!("F{tail}"), "", &mut dummy);
                let (a, b) = (out.last().cloned().unwrap_or_default(), fresh.rsplit(',').next().unwrap_or("").to_string());
                if a != b {
                    fails.push(("C08".into(), format!("after the history the probe observes {a} but a fresh sentence observes {b}")));
                }
            }
        }
        "c14" => {
            // the history is `<probe with predictor 0>,obs,<same probe with predictor 1>,obs`
            let obs_out: Vec<&String> = out.iter().filter(|o| o.contains(';')).collect();
            // only histories of that shape are judged: two halves that differ in nothing but the predictor index
            let all: Vec<&str> = ops.split(',').collect();
            let symmetric = all.len() % 2 == 0 && {
                let (h0, h1) = all.split_at(all.len() / 2);
                h0.iter().zip(h1).all(|(a, b)| a == b || (a.starts_with("pred:") && b.starts_with("pred:")))
            };
            if symmetric && obs_out.len() == 2 && obs_out[0] != obs_out[1] {
                fails.push(("C14".into(), format!("the deserialised predictor observes {} but the original observes {}", obs_out[1], obs_out[0])));
            }
            if out.iter().any(|o| o == "panic") {
                fails.push(("C14".into(), "a prediction with the original or the deserialised predictor panicked".into()));
            }
        }
        "c18" => {
            let all: Vec<&str> = ops.split(',').collect();
            for (i, o) in out.iter().enumerate() {
                if o == "panic" || o.contains("!panic") || o.contains("!ub") {
                    fails.push(("C18".into(), format!("operation {i} ({}) panicked in the debug-assertion build: {}", all.get(i).copied().unwrap_or("?"), &o[..o.len().min(120)])));
                    break;
                }
            }
        }
        "c02" => oracle_c02(&s, fails),
        // the history ends with a prediction: "after prediction the tokens … start at character 0, end at the last character"
        "c02p" => {
            oracle_c02(&s, fails);
            if !out.iter().any(|o| o.contains("panic")) {
                let n = s.as_raw_text().chars().count();
                let toks: Vec<(usize, usize)> = s.iter_tokens().map(|t| (t.start(), t.end())).collect();
                let contiguous = toks.first().map(|t| t.0) == Some(0) && toks.last().map(|t| t.1) == Some(n) && toks.windows(2).all(|w| w[0].1 == w[1].0);
                if !contiguous || s.boundaries().iter().any(|b| *b == CharacterBoundary::Unknown) {
                    fails.push(("C02".into(), format!("after a prediction the tokens {toks:?} are not a partition of the {n} characters (labels {})", labels_str(&s))));
                }
            }
        }
        "c03rt" => oracle_c03rt(&s, fails),
        "c03idem" => {
            if out.first().map(String::as_str) == Some("ok") {
                oracle_c03idem(&s, fails)
            } else if out.first().map(String::as_str) == Some("panic") {
                fails.push(("C03".into(), "from_tokenized panicked".into()));
            }
        }
        "c04rt" => oracle_c04rt(&s, fails),
        _ => {}
    }
    out.join(",")
}
