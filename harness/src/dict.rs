//! C19: dictionary edits.
//!   RD <model> <entries|-> <hex text>   entries := hexword=ints[=hexcomment] { "/" … }
//!        -> hex of the model after replace_dictionary | err:invalid_argument
//!   WJ <ints> <hex of the weights column the real tool wrote>   -> that column (model: joinWeights)
//!   WP <hex string>                      -> parsed weights `ok:<ints>` | err
//!   DF <model>                           -> hex of the file `manipulate_model --dump-dict` writes (model: csvDumpFile)
//!   LF <hex bytes>                       -> `ok:<entries>;strict` | `err;strict`: what `--replace-dict` loads from this file (model: csvLoadFile)
use vaporetto::{Model, Predictor, Sentence, WordWeightRecord};

use crate::model::AbsModel;
use crate::util::{catch, hex, hexs, unhexs};

fn parse_entries(s: &str) -> Option<Vec<(String, Vec<i32>, String)>> {
    if s == "-" {
        return Some(vec![]);
    }
    s.split('/')
        .map(|e| {
            let f: Vec<&str> = e.split('=').collect();
            let w = unhexs(f.first()?)?;
            let ws: Vec<i32> = if f.get(1)?.is_empty() { vec![] } else { f[1].split(',').map(|x| x.parse().ok()).collect::<Option<Vec<_>>>()? };
            let c = if f.len() > 2 { unhexs(f[2])? } else { String::new() };
            Some((w, ws, c))
        })
        .collect()
}

pub fn run(toks: &[&str], fails: &mut Vec<(String, String)>) -> String {
    let c19 = toks.last() == Some(&"c19");
    match toks {
        ["RD", m, entries, text, rest @ ..] => {
            let (Some(m), Some(entries), Some(text)) = (AbsModel::parse(m), parse_entries(entries), unhexs(text)) else { return "bad-case".into() };
            // `pre`: the model has already been serialised once before its dictionary is replaced; `rd`: it was read with `Model::read`
            let (pre, via_read) = (rest.contains(&"pre"), rest.contains(&"rd"));
            let prop = if toks.last() == Some(&"c07") { "C07" } else { "C19" };
            let mut differs: Option<String> = None;
            let r = catch(std::panic::AssertUnwindSafe(|| {
                let mut model = if via_read { vaporetto::Model::read(&m.to_bytes()[..]).map_err(|_| "err:model".to_string())? } else { m.load().map_err(|_| "err:model".to_string())? };
                if pre {
                    let _ = model.to_vec().map_err(|_| "err:encode-before".to_string())?;
                }
                let mut recs = vec![];
                for (w, ws, c) in &entries {
                    recs.push(WordWeightRecord::new(w.clone(), ws.clone(), c.clone()).map_err(|_| "err:invalid_argument".to_string())?);
                }
                model.replace_dictionary(recs);
                // every way of serialising the edited model gives the same bytes, the first time and again
                let mut w = vec![];
                let wr = model.write(&mut w).map_err(|_| "err:write".to_string());
                let bytes = model.to_vec().map_err(|_| "err:encode".to_string());
                let again = model.to_vec().map_err(|_| "err:encode-again".to_string());
                match (&wr, &bytes, &again) {
                    (Ok(()), Ok(b), Ok(a)) if *b == w && a == b => {}
                    (Err(_), Err(_), Err(_)) => {}
                    _ => differs = Some(format!("after replace_dictionary: write -> {:?} ({} bytes), to_vec -> {:?}, to_vec again -> {:?}", wr, w.len(), bytes.as_ref().map(|b| b.len()), again.as_ref().map(|b| b.len()))),
                }
                let bytes = bytes?;
                Ok::<_, String>((bytes, model))
            }));
            if let Some(d) = differs {
                fails.push((prop.into(), format!("the serialisers of one model disagree ({}{}dictionary of {} entries replaced by {} entries): {d}", if via_read { "read with Model::read, " } else { "read with read_slice, " }, if pre { "serialised once before, " } else { "" }, m.dict.len(), entries.len())));
            }
            match r {
                Ok(Ok((bytes, model))) => {
                    if c19 {
                        oracle_delta(&m, &entries, &text, &bytes, model, fails);
                    }
                    hex(&bytes)
                }
                Ok(Err(e)) => {
                    if c19 && entries.iter().all(|(w, ws, _)| ws.len() == w.chars().count() + 1) {
                        fails.push(("C19".into(), format!("replace_dictionary rejected well-formed records: {e}")));
                    }
                    e
                }
                Err(_) => "panic".into(),
            }
        }
        // DF <model>: the dictionary file that the real `manipulate_model --dump-dict` writes for this model, as hex
        ["DF", m, ..] => {
            let Some(m) = AbsModel::parse(m) else { return "bad-case".into() };
            let dir = crate::cli::scratch_dir("c19df");
            let (mp, cp) = (dir.join("m.zst"), dir.join("d.csv"));
            let _ = std::fs::remove_file(&cp);
            crate::cli::write_zst(&mp, &m.to_bytes());
            let o = crate::cli::run_tool("manipulate_model", &["--model-in".into(), mp.display().to_string(), "--dump-dict".into(), cp.display().to_string()], b"");
            let res = match (o.code, std::fs::read(&cp)) {
                (Some(0), Ok(bytes)) => if bytes.is_empty() { "-".into() } else { hex(&bytes) },
                _ => {
                    if c19 {
                        fails.push(("C19".into(), format!("manipulate_model --dump-dict failed (exit {:?}) on a model with {} dictionary entries", o.code, m.dict.len())));
                    }
                    "err".into()
                }
            };
            let _ = std::fs::remove_dir_all(&dir);
            res
        }
        // LF <hex bytes>: the dictionary that the real `manipulate_model --replace-dict` puts into a model when given this file
        ["LF", h, ..] => {
            let Some(bytes) = crate::util::unhex(h) else { return "bad-case".into() };
            let dir = crate::cli::scratch_dir("c19lf");
            let (mp, cp, op) = (dir.join("m.zst"), dir.join("d.csv"), dir.join("o.zst"));
            let base = AbsModel { char_w: 1, type_w: 1, bias: 3, dict: vec![("旧".into(), vec![1, 2], "old".into())], ..Default::default() };
            crate::cli::write_zst(&mp, &base.to_bytes());
            std::fs::write(&cp, &bytes).unwrap();
            let _ = std::fs::remove_file(&op);
            let o = crate::cli::run_tool("manipulate_model", &["--model-in".into(), mp.display().to_string(), "--replace-dict".into(), cp.display().to_string(), "--model-out".into(), op.display().to_string()], b"");
            let res = if o.code == Some(0) {
                match crate::cli::read_zst(&op).as_deref().and_then(AbsModel::from_bytes) {
                    Some(m2) => {
                        // oracle: the tool reported success, so the model's dictionary is exactly what the file says, record by
                        // record — words, weights AND comments (read here with the csv crate directly, not through the tool)
                        if c19 {
                            if let Ok(mut rdr) = csv::ReaderBuilder::new().from_reader(&bytes[..]).into_records().collect::<Result<Vec<_>, _>>() {
                                let want: Vec<(String, String, String)> = rdr.drain(..).map(|r| (r.get(0).unwrap_or("").to_string(), r.get(1).unwrap_or("").to_string(), r.get(2).unwrap_or("").to_string())).collect();
                                let got: Vec<(String, String, String)> = m2.dict.iter().map(|(w, ws, c)| (w.clone(), ws.iter().map(|x| x.to_string()).collect::<Vec<_>>().join(" "), c.clone())).collect();
                                let norm = |v: &Vec<(String, String, String)>| v.iter().map(|(w, ws, c)| (w.clone(), ws.split(' ').map(|x| x.parse::<i32>().map(|v| v.to_string()).unwrap_or_else(|_| x.to_string())).collect::<Vec<_>>().join(" "), c.clone())).collect::<Vec<_>>();
                                if norm(&want) != norm(&got) {
                                    fails.push(("C19".into(), format!("manipulate_model --replace-dict reported success on the file {:?}, but the written model's dictionary is {got:?}, not the file's records {want:?}", String::from_utf8_lossy(&bytes))));
                                }
                            }
                        }
                        if m2.dict.is_empty() {
                            "ok:-".to_string()
                        } else {
                            format!("ok:{}", m2.dict.iter().map(|(w, ws, c)| format!("{}={}={}", hexs(w), ws.iter().map(|x| x.to_string()).collect::<Vec<_>>().join(","), hexs(c))).collect::<Vec<_>>().join("/"))
                        }
                    }
                    None => "err:unreadable-output".into(),
                }
            } else {
                if c19 && o.stderr.contains("panicked") {
                    fails.push(("C19".into(), format!("manipulate_model --replace-dict panicked on the dictionary file {:?}", String::from_utf8_lossy(&bytes))));
                }
                "err".into()
            };
            let _ = std::fs::remove_dir_all(&dir);
            // the generators stay inside the domain in which the model claims to agree with the csv crate's reader
            format!("{res};strict")
        }
        ["WJ", _ints, col, ..] => col.to_string(),
        ["WP", h, ..] => {
            let Some(s) = unhexs(h) else { return "bad-case".into() };
            let mut out = vec![];
            for w in s.split(' ') {
                match w.parse::<i32>() {
                    Ok(x) => out.push(x.to_string()),
                    Err(_) => return "err".into(),
                }
            }
            format!("ok:{}", out.join(","))
        }
        _ => "bad-case".into(),
    }
}

/// the score of every boundary changes by exactly (new entries' weights) − (old entries' weights); nothing else changes
fn oracle_delta(m: &AbsModel, entries: &[(String, Vec<i32>, String)], text: &str, bytes: &[u8], new_model: Model, fails: &mut Vec<(String, String)>) {
    let Some(after) = AbsModel::from_bytes(bytes) else {
        fails.push(("C19".into(), "the model after replace_dictionary cannot be decoded".into()));
        return;
    };
    // the public accessors show exactly the records handed to replace_dictionary, in order, and the tag models untouched
    let seen: Vec<(String, Vec<i32>, String)> =
        new_model.dictionary().iter().map(|r| (r.get_word().to_string(), r.get_weights().to_vec(), r.get_comment().to_string())).collect();
    if seen != entries {
        fails.push(("C19".into(), format!("Model::dictionary() shows {seen:?} after replace_dictionary({entries:?})")));
    }
    let toks: Vec<String> = new_model.tag_models().iter().map(|t| t.token().to_string()).collect();
    let want: Vec<String> = m.tag_models.iter().map(|t| t.token.clone()).collect();
    if toks != want {
        fails.push(("C19".into(), format!("Model::tag_models() lists the tokens {toks:?} after replace_dictionary, the model has {want:?}")));
    }
    let mut expect = m.clone();
    expect.dict = entries.to_vec();
    if after.to_text() != expect.to_text() {
        fails.push(("C19".into(), format!("replace_dictionary changed more than the dictionary: {} instead of {}", after.to_text(), expect.to_text())));
        return;
    }
    if !m.well_formed() || !expect.well_formed() || text.is_empty() {
        return;
    }
    let r = catch(|| {
        let p0 = Predictor::new(m.load().map_err(|e| e)?, false).map_err(|e| e.to_string())?;
        let p1 = Predictor::new(new_model, false).map_err(|e| e.to_string())?;
        let mut s0 = Sentence::from_raw(text.to_string()).map_err(|e| e.to_string())?;
        let mut s1 = Sentence::from_raw(text.to_string()).map_err(|e| e.to_string())?;
        p0.predict(&mut s0);
        p1.predict(&mut s1);
        let only_dict = |d: &[(String, Vec<i32>, String)]| {
            let x = AbsModel { char_w: 1, type_w: 1, dict: d.to_vec(), ..Default::default() };
            x.spec_scores(text)
        };
        let (old, new) = (only_dict(&m.dict), only_dict(entries));
        for b in 0..s0.boundary_scores().len() {
            let got = s1.boundary_scores()[b] as i64 - s0.boundary_scores()[b] as i64;
            if got != new[b] - old[b] {
                return Err(format!("boundary {b} of {text:?}: the score changed by {got}, the dictionaries differ by {}", new[b] - old[b]));
            }
        }
        Ok::<(), String>(())
    });
    match r {
        Ok(Ok(())) => {}
        Ok(Err(e)) => fails.push(("C19".into(), e)),
        Err(e) => fails.push(("C19".into(), format!("panic: {e}"))),
    }
}

const HOSTILE: &[&str] = &[
    "a,b", "\"q\"", "x y", "l\nm", "c\rd", "漢字", "𠮷", " lead", "trail ", "'", "a\"b,c\n", "ｶﾅ", ",",
    // characters that CSV dialects, spreadsheets and hand-written readers treat specially at the start or the end of a field
    "#火星猫", "#", "# x", ";a", "\ta", "a\t", "-", "=1+1", "+1", "@x", "\u{feff}a", "\\", "a\\", "''", "\"", "\"\"", " ", "\u{3000}",
    "//", "NULL", "0", "\r", "\n", "\r\n", "a\u{85}b", "\u{2028}", "%", "|", "a b c", "\u{b}", "\u{1f}x", "x\u{7f}",
];

/// the `k`-th dictionary of the deterministic sweep: every printable ASCII punctuation character and some control / format
/// characters as the first and as the last character of a word, and in the comment
fn sweep_words(k: usize) -> Vec<(String, String)> {
    let mut specials: Vec<char> = (0x21u8..0x7f).map(|b| b as char).filter(|c| !c.is_ascii_alphanumeric()).collect();
    specials.extend(['\t', '\u{b}', '\u{c}', '\u{1f}', '\u{7f}', '\u{85}', '\u{a0}', '\u{feff}', '\u{2028}', '\u{3000}', '\u{200b}']);
    specials
        .iter()
        .enumerate()
        .filter(|(i, _)| i % 3 == k % 3)
        .flat_map(|(_, &c)| [(format!("{c}あ"), format!("{c}")), (format!("い{c}"), format!("x{c}")), (format!("{c}"), String::new())])
        .collect()
}

pub fn gen(out: &mut dyn std::io::Write, thorough: bool, seed: u64) {
    use crate::model::{gen_model, gen_text, GenOpts};
    use crate::util::Rng;
    let mut r = Rng::new(seed ^ 0xC19);
    // windows beyond 4 and words of 8 and more characters: merged weight vectors longer than the fixed 8-entry layout
    let opts = GenOpts { windows: &[1, 2, 3, 4, 5, 9], max_ngrams: 5, max_words: 4, max_word_len: 12 };
    let n = if thorough { 5000 } else { 250 };
    let tool_ok = std::path::Path::new(crate::cli::BIN_DIR).join("manipulate_model").exists();
    let dir = crate::cli::scratch_dir("c19gen");
    for i in 0..n {
        let (mut m, alpha) = gen_model(&mut r, &opts);
        // CSV-hostile words, 32-bit and negative weights, arbitrary comments
        for _ in 0..r.below(4) {
            let w = r.pick(HOSTILE).to_string();
            if m.dict.iter().any(|d| d.0 == w) {
                continue;
            }
            let l = w.chars().count();
            let ws: Vec<i32> = (0..=l).map(|_| *r.pick(&[i32::MAX, i32::MIN, -1, 0, 7, -32768, 65536])).collect();
            m.dict.push((w, ws, r.pick(HOSTILE).to_string()));
        }
        let text = gen_text(&mut r, &m, &alpha, 14);
        // a new dictionary: some old entries kept, some changed, some new, occasionally a malformed record
        let mut entries: Vec<(String, Vec<i32>, String)> = vec![];
        for d in &m.dict {
            match r.below(3) {
                0 => {
                    entries.push(d.clone());
                    if r.chance(1, 8) {
                        entries.push((d.0.clone(), d.1.iter().map(|x| x / 2).collect(), "again".into()));
                    }
                }
                1 => entries.push((d.0.clone(), d.1.iter().map(|x| x.wrapping_add(r.range(-9, 9) as i32)).collect(), "edited".into())),
                _ => {}
            }
        }
        for _ in 0..r.below(3) {
            let w: String = (0..(if r.chance(1, 3) { r.range(7, 18) } else { r.range(1, 3) })).map(|_| *r.pick(&alpha)).collect();
            if entries.iter().any(|e| e.0 == w) && r.chance(1, 2) {
                continue; // otherwise: a second record for the same word (their weights add up)
            }
            let l = w.chars().count();
            let n_w = if i % 17 == 0 { l } else { l + 1 };
            entries.push((w, (0..n_w).map(|_| r.range(-40, 40) as i32).collect(), String::new()));
        }
        // the text also contains occurrences of the new entries, not at its very start
        let mut text = text;
        for e in entries.iter().filter(|e| e.0.chars().all(|c| c != '\0')).take(3) {
            if r.chance(2, 3) {
                text.push(*r.pick(&alpha));
                text.push_str(&e.0);
            }
        }
        let es = if entries.is_empty() {
            "-".to_string()
        } else {
            entries
                .iter()
                .map(|(w, ws, c)| format!("{}={}{}", hexs(w), ws.iter().map(|x| x.to_string()).collect::<Vec<_>>().join(","), if c.is_empty() { String::new() } else { format!("={}", hexs(c)) }))
                .collect::<Vec<_>>()
                .join("/")
        };
        writeln!(out, "RD {} {} {} c19", m.to_text(), es, hexs(&text)).unwrap();
        // the weights column as the real tool writes it
        if tool_ok && !m.dict.is_empty() && i % 5 == 0 {
            let mp = dir.join("m.zst");
            let cp = dir.join("d.csv");
            crate::cli::write_zst(&mp, &m.to_bytes());
            let o = crate::cli::run_tool("manipulate_model", &["--model-in".into(), mp.display().to_string(), "--dump-dict".into(), cp.display().to_string()], b"");
            if o.code == Some(0) {
                if let Ok(mut rdr) = csv::Reader::from_path(&cp) {
                    for (rec, d) in rdr.records().zip(&m.dict) {
                        if let Ok(rec) = rec {
                            let col = rec.get(1).unwrap_or("");
                            writeln!(out, "WJ {} {} c19", d.1.iter().map(|x| x.to_string()).collect::<Vec<_>>().join(","), hexs(col)).unwrap();
                            writeln!(out, "WP {} c19", hexs(col)).unwrap();
                        }
                    }
                }
            }
        }
    }
    // the FILE level (`VModel/CsvFile.lean`): what the real tool dumps, byte for byte, and what it loads from files an editor or
    // a spreadsheet might produce from such a dump (every field quoted, CRLF, no final line break, blank lines) incl. bad records
    if tool_ok {
        let n_files = if thorough { 600 } else { 60 };
        for i in 0..n_files {
            let mut rows: Vec<(String, Vec<i32>, String)> = vec![];
            let n_rows = if i == 0 { 0 } else { r.range(1, 5) as usize };
            for k in 0..n_rows {
                let w = if r.chance(1, 2) { HOSTILE[(i * 5 + k) % HOSTILE.len()].to_string() } else { (0..r.range(1, 4)).map(|_| *r.pick(&['a', 'あ', '漢', '1'])).collect() };
                if rows.iter().any(|x| x.0 == w) || w.contains('\0') {
                    continue;
                }
                let l = w.chars().count();
                rows.push((w, (0..=l).map(|_| *r.pick(&[i32::MAX, i32::MIN, -1, 0, 7, 40])).collect(), HOSTILE[(i * 11 + k) % HOSTILE.len()].to_string()));
            }
            let m = AbsModel { char_w: 2, type_w: 1, dict: rows.clone(), ..Default::default() };
            writeln!(out, "DF {} c19", m.to_text()).unwrap();
            // hand-made files
            let quote = |f: &str, always: bool| -> String {
                if always || f.contains(',') || f.contains('"') || f.contains('\r') || f.contains('\n') { format!("\"{}\"", f.replace('"', "\"\"")) } else { f.to_string() }
            };
            let style = i % 6;
            let term = if style == 2 { "\r\n" } else { "\n" };
            let mut recs: Vec<Vec<String>> = vec![vec!["word".into(), "weights".into(), "comment".into()]];
            for (w, ws, c) in &rows {
                let mut wcol = ws.iter().map(|x| x.to_string()).collect::<Vec<_>>().join(" ");
                let mut fields = vec![w.clone(), String::new(), c.clone()];
                match r.below(14) {
                    0 => wcol.push_str(" 1"),                       // one weight too many
                    1 => wcol = wcol.rsplit_once(' ').map(|x| x.0.to_string()).unwrap_or_default(),   // one too few
                    2 => wcol = wcol.replacen(' ', "  ", 1),        // an empty item
                    3 => wcol = format!("{wcol}x"),                 // not a number
                    4 => wcol = wcol.replacen(char::is_numeric, "99999999999", 1),   // out of range
                    5 => fields.push("extra".into()),               // four fields
                    6 => { fields.pop(); }                          // two fields
                    7 => wcol = format!("+{wcol}"),                 // an explicit sign is accepted by `str::parse`
                    _ => {}
                }
                fields[1] = wcol;
                recs.push(fields);
            }
            let mut file = String::new();
            for (k, rec) in recs.iter().enumerate() {
                if style == 4 && k > 0 {
                    file.push_str(term);                            // a blank line in front of every record
                }
                file.push_str(&rec.iter().map(|f| quote(f, style == 1)).collect::<Vec<_>>().join(","));
                if !(style == 3 && k + 1 == recs.len()) {
                    file.push_str(term);                            // style 3: no line break after the last record
                }
            }
            if style == 5 && i % 12 == 5 {
                file.clear();                                       // the empty file
            }
            writeln!(out, "LF {} c19", hexs(&file)).unwrap();
        }
        // edits of the dictionary the base model already has (word 旧, weights 1 2, comment old): only the comment changes, only a
        // weight changes, nothing changes, the entry twice
        for f in ["word,weights,comment\n旧,1 2,new comment\n", "word,weights,comment\n旧,1 2,\n", "word,weights,comment\n旧,1 3,old\n", "word,weights,comment\n旧,1 2,old\n",
                  "word,weights,comment\n旧,1 2,old\n旧,1 2,again\n", "word,weights,comment\n\"旧\",\"1 2\",\"a, \"\"b\"\"\"\n"] {
            writeln!(out, "LF {} c19", hexs(f)).unwrap();
        }
    }
    for s in ["1 2", "1  2", "", " ", "+5", "-0", "2147483648", "-2147483649", "1a", "１", "-", "3 -4 +5"] {
        writeln!(out, "WP {} c19", hexs(s)).unwrap();
    }
    let _ = std::fs::remove_dir_all(&dir);
}

/// extra step: dump the dictionary with the real tool, replace it with the unmodified dump, compare the model files
pub fn cli_roundtrip(thorough: bool, seed: u64) {
    use crate::model::{gen_model, GenOpts};
    use crate::util::Rng;
    let mut r = Rng::new(seed ^ 0xC19C);
    let opts = GenOpts { windows: &[1, 2, 3], max_ngrams: 4, max_words: 4, max_word_len: 5 };
    let dir = crate::cli::scratch_dir("c19");
    let n = if thorough { 400 } else { 40 };
    let mut fails = 0;
    for i in 0..n {
        let (mut m, alpha) = gen_model(&mut r, &opts);
        crate::model::gen_tag_models(&mut r, &mut m, &alpha, 2);
        // the hostile words in rotation (every one of them in every run) plus random picks
        let mut picks: Vec<(String, String)> = (0..3).map(|k| (HOSTILE[(i * 3 + k) % HOSTILE.len()].to_string(), HOSTILE[(i * 7 + k) % HOSTILE.len()].to_string())).collect();
        for _ in 0..r.range(1, 5) {
            picks.push((r.pick(HOSTILE).to_string(), r.pick(HOSTILE).to_string()));
        }
        if i < 3 {
            picks.extend(sweep_words(i));
        }
        for (w, c) in picks {
            if m.dict.iter().any(|d| d.0 == w) {
                continue;
            }
            let l = w.chars().count();
            let ws: Vec<i32> = (0..=l).map(|_| *r.pick(&[i32::MAX, i32::MIN, -1, 0, 7, -32768, 65536])).collect();
            m.dict.push((w, ws, c));
        }
        let bytes = m.to_bytes();
        let (mp, cp, op) = (dir.join("in.zst"), dir.join("dict.csv"), dir.join("out.zst"));
        // the output paths already exist and hold MORE bytes than the tool is going to write (every other case)
        if i % 2 == 0 {
            std::fs::write(&op, vec![b'x'; bytes.len() + 4096]).unwrap();
            std::fs::write(&cp, "word,weights,comment\n".repeat(400)).unwrap();
        } else {
            let _ = std::fs::remove_file(&op);
            let _ = std::fs::remove_file(&cp);
        }
        crate::cli::write_zst(&mp, &bytes);
        let s = |p: &std::path::Path| p.display().to_string();
        let o1 = crate::cli::run_tool("manipulate_model", &["--model-in".into(), s(&mp), "--dump-dict".into(), s(&cp)], b"");
        let o2 = crate::cli::run_tool("manipulate_model", &["--model-in".into(), s(&mp), "--replace-dict".into(), s(&cp), "--model-out".into(), s(&op)], b"");
        let back = crate::cli::read_zst(&op);
        if o1.code != Some(0) || o2.code != Some(0) || back.as_deref() != Some(&bytes[..]) {
            fails += 1;
            // shrink: the first dictionary entry that fails on its own, in a model that has nothing else
            let mut minimal = String::new();
            for d in &m.dict {
                let m1 = crate::model::AbsModel { char_w: 1, type_w: 1, dict: vec![d.clone()], ..Default::default() };
                let b1 = m1.to_bytes();
                let _ = std::fs::remove_file(&op);
                let _ = std::fs::remove_file(&cp);
                crate::cli::write_zst(&mp, &b1);
                let a = crate::cli::run_tool("manipulate_model", &["--model-in".into(), s(&mp), "--dump-dict".into(), s(&cp)], b"");
                let b = crate::cli::run_tool("manipulate_model", &["--model-in".into(), s(&mp), "--replace-dict".into(), s(&cp), "--model-out".into(), s(&op)], b"");
                if a.code != Some(0) || b.code != Some(0) || crate::cli::read_zst(&op).as_deref() != Some(&b1[..]) {
                    minimal = format!("minimal: a dictionary with the single entry word={:?} weights={:?} comment={:?} is not reproduced; ", d.0, d.1, d.2);
                    break;
                }
            }
            println!(
                "FAIL case={i} {minimal}model={} dump_exit={:?} replace_exit={:?} identical={} stderr={}",
                m.to_text(),
                o1.code,
                o2.code,
                back.as_deref() == Some(&bytes[..]),
                o2.stderr.lines().last().unwrap_or("").chars().take(200).collect::<String>()
            );
        }
        // the same through streams instead of regular files (a pipe has no length and hands its data out in pieces): the
        // dictionary read from /dev/stdin, the model read from /dev/stdin, the dump written to /dev/stdout
        if i % 3 == 2 && o1.code == Some(0) {
            let csv_bytes = std::fs::read(&cp).unwrap_or_default();
            let op3 = dir.join("out3.zst");
            let _ = std::fs::remove_file(&op3);
            let o5 = crate::cli::run_tool("manipulate_model", &["--model-in".into(), s(&mp), "--replace-dict".into(), "/dev/stdin".into(), "--model-out".into(), s(&op3)], &csv_bytes);
            let back3 = crate::cli::read_zst(&op3);
            if o5.code != Some(0) || back3.as_deref() != Some(&bytes[..]) {
                fails += 1;
                println!("FAIL case={i} model={} the dumped dictionary fed back through a pipe (--replace-dict /dev/stdin): exit {:?}, output model identical={}, dictionary entries in the output: {:?}", m.to_text(), o5.code, back3.as_deref() == Some(&bytes[..]), back3.as_deref().and_then(crate::model::AbsModel::from_bytes).map(|x| x.dict.len()));
            }
            let zst_bytes = std::fs::read(&mp).unwrap_or_default();
            let o6 = crate::cli::run_tool("manipulate_model", &["--model-in".into(), "/dev/stdin".into(), "--dump-dict".into(), "/dev/stdout".into()], &zst_bytes);
            if o6.code != Some(0) || o6.stdout != csv_bytes {
                fails += 1;
                println!("FAIL case={i} model={} the model read from a pipe and the dictionary dumped to a pipe (--model-in /dev/stdin --dump-dict /dev/stdout): exit {:?}, {} bytes, the dump into a file has {} bytes", m.to_text(), o6.code, o6.stdout.len(), csv_bytes.len());
            }
        }
        // dump and replace in ONE invocation, through the same file: the tool must still reproduce the model
        if i % 4 == 1 {
            let (cp2, op2) = (dir.join("dict2.csv"), dir.join("out2.zst"));
            let _ = std::fs::remove_file(&op2);
            let _ = std::fs::remove_file(&cp2);
            let o4 = crate::cli::run_tool("manipulate_model", &["--model-in".into(), s(&mp), "--dump-dict".into(), s(&cp2), "--replace-dict".into(), s(&cp2), "--model-out".into(), s(&op2)], b"");
            let back2 = crate::cli::read_zst(&op2);
            // the tool may refuse the combination; if it accepts it, the result has to be the model
            if o4.code == Some(0) && back2.as_deref() != Some(&bytes[..]) {
                fails += 1;
                println!("FAIL case={i} model={} --dump-dict D --replace-dict D in one run exited 0 but the output model is not the input model (identical={})", m.to_text(), back2.as_deref() == Some(&bytes[..]));
            }
        }
        // a record whose weight count does not match the word length must be rejected
        if i % 8 == 0 {
            std::fs::write(&cp, "word,weights,comment\nab,1 2,\n").unwrap();
            let _ = std::fs::remove_file(&op);
            let o3 = crate::cli::run_tool("manipulate_model", &["--model-in".into(), s(&mp), "--replace-dict".into(), s(&cp), "--model-out".into(), s(&op)], b"");
            if o3.code == Some(0) || op.exists() {
                fails += 1;
                println!("FAIL case={i} a record with 2 weights for a 2-character word was accepted (exit {:?})", o3.code);
            }
        }
    }
    let _ = std::fs::remove_dir_all(&dir);
    println!("cli_roundtrip models={n} failures={fails}");
}
