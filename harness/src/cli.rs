//! running the repository's command-line tools (built from the working tree into /verif/target/repo)
use std::io::Write;
use std::path::{Path, PathBuf};
use std::process::{Command, Stdio};

pub const BIN_DIR: &str = "/verif/target/repo/release";

pub fn scratch_dir(tag: &str) -> PathBuf {
    let d = PathBuf::from(format!("/verif/work/cli-{tag}-{}", std::process::id()));
    let _ = std::fs::create_dir_all(&d);
    d
}

pub fn write_zst(path: &Path, bytes: &[u8]) {
    let f = std::fs::File::create(path).expect("create model file");
    let mut e = zstd::Encoder::new(f, 1).expect("zstd");
    e.write_all(bytes).unwrap();
    e.finish().unwrap();
}

pub fn read_zst(path: &Path) -> Option<Vec<u8>> {
    let f = std::fs::File::open(path).ok()?;
    zstd::decode_all(f).ok()
}

pub struct RunOut {
    pub code: Option<i32>,
    pub stdout: Vec<u8>,
    pub stderr: String,
}

pub fn run_tool(tool: &str, args: &[String], stdin: &[u8]) -> RunOut {
    let mut child = Command::new(format!("{BIN_DIR}/{tool}"))
        .args(args)
        .stdin(Stdio::piped())
        .stdout(Stdio::piped())
        .stderr(Stdio::piped())
        .spawn()
        .expect("spawn tool");
    // stdin is fed from its own thread: with large inputs the tool's output fills its pipe before the input is consumed
    let mut si = child.stdin.take().unwrap();
    let data = stdin.to_vec();
    let feeder = std::thread::spawn(move || {
        let _ = si.write_all(&data);
    });
    let o = child.wait_with_output().expect("wait");
    let _ = feeder.join();
    RunOut { code: o.status.code(), stdout: o.stdout, stderr: String::from_utf8_lossy(&o.stderr).to_string() }
}
