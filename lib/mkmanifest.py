#!/usr/bin/env python3
"""regenerates MANIFEST.json from lib/props.py (claimed) + lib/manifest_meta.py"""
import json, os, sys
ROOT = os.path.dirname(os.path.dirname(os.path.abspath(__file__)))
sys.path.insert(0, os.path.join(ROOT, "lib"))
import props, manifest_meta as mm

all_ids = [json.loads(l)["id"] for l in open(os.path.join(ROOT, "properties.jsonl"))]
checks = []
for pid in all_ids:
    if pid not in props.PROPS or pid not in mm.META:
        continue
    m = mm.META[pid]
    checks.append({
        "property_id": pid,
        "quick_cmd": f"./check {pid} --tier quick",
        "thorough_cmd": f"./check {pid} --tier thorough",
        "evidence_file": f"/verif/evidence/{pid}.json",
        "replay_cmd_template": f"./check {pid} --replay {{path}}",
        "engine": "lean4-proof+correspondence",
        "level_claimed": {"category": "proof", "text": m["text"], "design_ref": m["design_ref"]},
        "level_note": m["note"],
        "technique": m["technique"],
    })
na = [{"property_id": pid, "reason": mm.NOT_YET.get(pid, "check not built yet in this framework (planned, see DESIGN.md section 6); not claimed until its model, correspondence and theorems exist")}
      for pid in all_ids if pid not in props.PROPS or pid not in mm.META]
manifest = {
    "version": 1,
    "setup_cmd": "./check setup",
    "hooks": mm.HOOKS,
    "engines": [{"name": "lean4-proof+correspondence", "path": "/verif/check",
                 "serves_properties": [c["property_id"] for c in checks],
                 "kind_free_text": "Lean 4 theorems about an executable model (lean/VModel, lean/VProofs) + translator (exhaustive tabulation) + differential correspondence harness (harness/, lean/Driver) + implementation-side oracles"}],
    "checks": checks,
    "not_applicable": na,
    "notes": mm.NOTES,
}
json.dump(manifest, open(os.path.join(ROOT, "MANIFEST.json"), "w"), indent=1, ensure_ascii=False)
print(f"claimed {len(checks)}, not claimed {len(na)}")
