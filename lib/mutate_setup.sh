#!/bin/sh
# builds the scratch pair for lib/mutate.py:  sh lib/mutate_setup.sh /tmp/mut
set -e
D=${1:-/tmp/mut}
mkdir -p "$D"
git -C /repo worktree add --detach "$D/repo" HEAD
rsync -a --exclude work --exclude replays --exclude target/cov --exclude 'target/feat-m*' /verif/ "$D/verif/"
cd "$D/verif"
grep -rlE '/repo|/verif' --include='*.py' --include='*.rs' --include='*.toml' --include=check . 2>/dev/null | grep -vE '^./(target|lean/.lake|seeded|benign)/' | while read f; do
  sed -i "s#/verif#$D/verif#g; s#/repo#$D/repo#g; s#target$D/repo#target/repo#g" "$f"
done
echo "scratch pair ready in $D (remove with: git -C /repo worktree remove --force $D/repo; rm -rf $D)"
