#!/usr/bin/env python3
"""Runs the checks against a seeded change:  python3 lib/seedtest.py <seeded-dir> [--verify] [--checks C01,C13]

Applies seeded/<name>/patch.diff to /repo (working tree only), optionally verifies the sub-agent's claims (suite passes,
demo fails with / passes without the change), runs the listed checks (default: the property named in meta.json),
records the outcome in seeded/<name>/result.json and ALWAYS reverts /repo (git checkout -- . ; removes the demo)."""
import json, os, subprocess, sys, shutil, time

ROOT = os.path.dirname(os.path.dirname(os.path.abspath(__file__)))
REPO = "/repo"
ENV = dict(os.environ, CARGO_NET_OFFLINE="true")


def sh(cmd, cwd=None, timeout=3600):
    return subprocess.run(cmd, cwd=cwd, shell=isinstance(cmd, str), capture_output=True, text=True, env=ENV, timeout=timeout)


def demo_place(meta, d):
    rel = meta.get("demo_path", "vaporetto/tests/seed_demo.rs")
    dst = os.path.join(REPO, rel)
    os.makedirs(os.path.dirname(dst), exist_ok=True)
    shutil.copy(os.path.join(d, "demo.rs"), dst)
    return dst, rel


def run_demo(meta):
    cmd = meta.get("demo_cmd", "cargo test -p vaporetto --test seed_demo --offline")
    r = sh(cmd, cwd=REPO)
    return r.returncode == 0, (r.stdout + r.stderr)[-1500:]


def main():
    d = os.path.abspath(sys.argv[1])
    meta = json.load(open(os.path.join(d, "meta.json")))
    checks = [meta["property"]]
    if "--checks" in sys.argv:
        checks = sys.argv[sys.argv.index("--checks") + 1].split(",")
    verify = "--verify" in sys.argv
    assert sh("git status --porcelain", cwd=REPO).stdout.strip() == "", "/repo is not clean"
    result = {"seed": os.path.basename(d), "property": meta["property"], "at": time.strftime("%Y-%m-%d %H:%M:%S"), "checks": {}}
    demo = None
    prev = os.path.join(d, "result.json")
    if not verify and os.path.exists(prev):
        for k, v in json.load(open(prev)).items():   # keep what an earlier --verify run established
            if k in ("demo_passes_without_patch", "demo_fails_with_patch", "suite_passes_with_patch"):
                result[k] = v
    try:
        if verify:
            demo, rel = demo_place(meta, d)
            ok0, _ = run_demo(meta)
            result["demo_passes_without_patch"] = ok0
        a = sh(["git", "apply", os.path.join(d, "patch.diff")], cwd=REPO)
        if a.returncode != 0:
            result["error"] = "patch does not apply: " + a.stderr[-500:]
            return result
        if verify:
            ok1, out1 = run_demo(meta)
            result["demo_fails_with_patch"] = not ok1
            os.remove(demo)
            demo = None
            s = sh("cargo test --workspace --no-fail-fast --offline 2>&1 | grep -E '^test result|FAILED|failed' | head -20", cwd=REPO)
            result["suite_passes_with_patch"] = ("FAILED" not in s.stdout) and ("failed;" not in s.stdout.replace("0 failed;", "")) and s.stdout.count("test result: ok") > 0
        for c in checks:
            for tier in (["quick"] if "--thorough" not in sys.argv else ["quick", "thorough"]):
                r = sh([os.path.join(ROOT, "check"), c, "--tier", tier], cwd=ROOT)
                viol = [l for l in r.stdout.splitlines() if l.startswith("VIOLATION")]
                entry = {"exit": r.returncode, "violations": viol}
                for v in viol[:2]:
                    try:
                        rp = v.split("replay=")[1].split()[0]
                        rj = json.load(open(os.path.join(ROOT, rp)))
                        entry.setdefault("replays", []).append({k: (str(rj[k])[:600]) for k in ("case", "oracle_message", "no_longer_checks", "what", "detail") if k in rj})
                    except Exception as e:  # noqa
                        pass
                result["checks"][f"{c}:{tier}"] = entry
                if r.returncode == 1:
                    break
        result["detected"] = any(v["exit"] == 1 for v in result["checks"].values())
        return result
    finally:
        if demo and os.path.exists(demo):
            os.remove(demo)
        sh("git checkout -- . && git clean -fdq", cwd=REPO)
        json.dump(result, open(os.path.join(d, "result.json"), "w"), indent=1, ensure_ascii=False)
        print(json.dumps(result, indent=1, ensure_ascii=False)[:3000])


if __name__ == "__main__":
    main()
