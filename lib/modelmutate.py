#!/usr/bin/env python3
"""Diagnostic (never part of a check): how tightly does the correspondence run pin the hand-written Lean model down?

  python3 lib/modelmutate.py collect            records every (driver input, driver output) pair of `./check all --tier quick`
                                                on the unchanged tree into work/mm/corpus (the outputs equal the implementation's:
                                                the run has no disagreement)
  python3 lib/modelmutate.py run [--sample N] [--jobs J] [--seed S] [--files a.lean,b.lean]
                                                one-token mutants of VModel/*.lean (not Generated/), each in a scratch copy of lean/:
                                                `lake build vdriver`; the mutant driver on the whole corpus; a mutant whose
                                                answers differ anywhere is KILLED BY THE CORRESPONDENCE; otherwise `lake build VProofs`:
                                                a failing proof means KILLED BY A THEOREM; otherwise it SURVIVES (model text that
                                                neither the code, through the cases, nor any theorem constrains).
  python3 lib/modelmutate.py report             mutation/model_mutants.jsonl -> a table for DESIGN.md

Scratch copies live under /tmp/mm and are removed at the end."""
import hashlib
import json
import os
import random
import re
import shutil
import subprocess
import sys
import threading
import time

ROOT = os.path.dirname(os.path.dirname(os.path.abspath(__file__)))
LEAN = os.path.join(ROOT, "lean")
CORPUS = os.path.join(ROOT, "work", "mm", "corpus")
OUT = os.path.join(ROOT, "mutation", "model_mutants.jsonl")
SCRATCH = "/tmp/mm"


def collect():
    shutil.rmtree(CORPUS, ignore_errors=True)
    os.makedirs(CORPUS)
    env = dict(os.environ, VERIF_DRIVER=os.path.join(ROOT, "lib", "vdriver_tee.sh"), VERIF_TEE_DIR=CORPUS,
               VERIF_REAL_DRIVER=os.path.join(LEAN, ".lake", "build", "bin", "vdriver"))
    r = subprocess.run([os.path.join(ROOT, "check"), "all", "--tier", "quick"], cwd=ROOT, env=env, capture_output=True, text=True)
    print(r.stderr[-1500:])
    # de-duplicate identical inputs
    seen = {}
    for f in sorted(os.listdir(CORPUS)):
        if f.endswith(".out"):
            continue
        p = os.path.join(CORPUS, f)
        h = hashlib.sha256(open(p, "rb").read()).hexdigest()
        if h in seen or os.path.getsize(p) == 0:
            os.remove(p)
            if os.path.exists(p + ".out"):
                os.remove(p + ".out")
        else:
            seen[h] = f
    n = sum(open(os.path.join(CORPUS, f), "rb").read().count(b"\n") for f in os.listdir(CORPUS) if not f.endswith(".out"))
    print(f"corpus: {len(seen)} driver inputs, {n} case lines")


# ----------------------------------------------------------------------------------------------------------------
# mutants
# ----------------------------------------------------------------------------------------------------------------

OPS = [
    (r"(?<![<≤=!:←-])<(?![=|:-])", "≤"), (r"≤", "<"), (r"(?<![=!:<>])==(?!=)", "!="), (r"!=", "=="),
    (r"&&", "||"), (r"\|\|", "&&"), (r"∧", "∨"), (r"∨", "∧"),
    (r"\btrue\b", "false"), (r"\bfalse\b", "true"),
    (r"\+ 1\b", "+ 2"), (r"\+ 1\b", "+ 0"), (r"- 1\b", "- 0"), (r"- 1\b", "- 2"),
    (r"\b0\b", "1"), (r"\b1\b", "0"), (r"\b2\b", "3"), (r"\b8\b", "7"), (r"\b7\b", "8"),
    (r"\.take\b", ".drop"), (r"\.drop\b", ".take"), (r"\bmin\b", "max"), (r"\bmax\b", "min"),
    (r"\.isEmpty\b", ".isEmpty.not"), (r" \+\+ ", " ++ [] ++ List.reverse <| "), (r"\.reverse\b", ""),
    (r"\bsome\b", "id <| some"), (r"(?<![=\-|<])>(?![=>])", "≥"), (r"≥", ">"), (r"\.ok\b", ".ok <| id"), (r"(?<=[a-z)\]] )\+(?= [a-zA-Z(])", "-"),
    (r"(?<=[a-z)\]] )-(?= [a-zA-Z(0-9])", "+"), (r"\* ", "+ "), (r" % ", " / "), (r"\.panic\b", ".err .invalidModel |> fun (r : Res _) => (fun _ => r)"),
    (r"\.ub\b", ".panic"),
]
# the two identity-looking operators (`id <| some`, `.ok <| id`) are deliberately equivalent mutants: they measure the noise floor
EQUIV = {"id <| some", ".ok <| id", " ++ [] ++ List.reverse <| "}
OPS = [o for o in OPS if o[1] not in EQUIV and "fun (r : Res _)" not in o[1]]


def code_spans(src):
    """(start, end) spans of source text outside comments, doc comments and string literals"""
    spans, i, n, depth, start = [], 0, len(src), 0, 0
    while i < n:
        if src.startswith("/-", i):
            if depth == 0:
                spans.append((start, i))
            depth += 1
            i += 2
        elif src.startswith("-/", i) and depth > 0:
            depth -= 1
            i += 2
            if depth == 0:
                start = i
        elif depth == 0 and src.startswith("--", i):
            spans.append((start, i))
            j = src.find("\n", i)
            i = n if j < 0 else j
            start = i
        elif depth == 0 and src[i] == '"':
            spans.append((start, i))
            j = i + 1
            while j < n and src[j] != '"':
                j += 2 if src[j] == "\\" else 1
            i = j + 1
            start = i
        else:
            i += 1
    if depth == 0:
        spans.append((start, n))
    return spans


def enumerate_mutants(files):
    muts = []
    for f in files:
        src = open(os.path.join(LEAN, f)).read()
        spans = code_spans(src)
        for pat, rep in OPS:
            for m in re.finditer(pat, src):
                if not any(a <= m.start() and m.end() <= b for a, b in spans):
                    continue
                line_start = src.rfind("\n", 0, m.start()) + 1
                line_end = src.find("\n", m.end())
                line = src[line_start:line_end if line_end >= 0 else len(src)]
                ls = line.strip()
                if ls.startswith(("import ", "namespace ", "end ", "open ", "deriving", "structure ", "inductive ", "variable ", "set_option")):
                    continue
                muts.append({"file": f, "pos": m.start(), "len": m.end() - m.start(), "rep": rep,
                             "line": src.count("\n", 0, m.start()) + 1, "before": line.strip()[:160]})
    return muts


def corpus_files():
    return sorted(os.path.join(CORPUS, f) for f in os.listdir(CORPUS) if not f.endswith(".out"))


def run_driver(exe, inputs, deadline):
    """first corpus file on which the driver's answers differ; None if it answers the whole corpus identically"""
    for p in inputs:
        want = open(p + ".out", "rb").read()
        try:
            r = subprocess.run([exe], stdin=open(p, "rb"), capture_output=True, timeout=max(5, deadline - time.time()))
        except subprocess.TimeoutExpired:
            return {"file": os.path.basename(p), "why": "timeout"}
        if r.returncode != 0:
            return {"file": os.path.basename(p), "why": f"driver exit {r.returncode}"}
        if r.stdout != want:
            a, b = r.stdout.split(b"\n"), want.split(b"\n")
            k = next((i for i in range(min(len(a), len(b))) if a[i] != b[i]), min(len(a), len(b)))
            case = open(p, "rb").read().split(b"\n")[k][:200].decode("utf-8", "replace") if k < len(b) else ""
            return {"file": os.path.basename(p), "line": k + 1, "case": case}
    return None


def worker(slot, queue, lock, results, inputs, with_proofs):
    d = os.path.join(SCRATCH, f"slot{slot}")
    shutil.rmtree(d, ignore_errors=True)
    os.makedirs(d)
    lean = os.path.join(d, "lean")
    shutil.copytree(LEAN, lean, symlinks=True)
    exe = os.path.join(lean, ".lake", "build", "bin", "vdriver")
    while True:
        with lock:
            if not queue:
                break
            mu = queue.pop()
        path = os.path.join(lean, mu["file"])
        orig = open(path).read()
        mutated = orig[:mu["pos"]] + mu["rep"] + orig[mu["pos"] + mu["len"]:]
        open(path, "w").write(mutated)
        rec = dict(mu)
        t0 = time.time()
        try:
            b = subprocess.run(["lake", "build", "vdriver"], cwd=lean, capture_output=True, text=True, timeout=600)
            if b.returncode != 0:
                rec["status"] = "does-not-compile"
            else:
                diff = run_driver(exe, inputs, time.time() + 900)
                if diff is not None:
                    rec["status"] = "killed-by-correspondence"
                    rec["first_difference"] = diff
                elif with_proofs:
                    pb = subprocess.run(["lake", "build", "VProofs"], cwd=lean, capture_output=True, text=True, timeout=1800)
                    if pb.returncode != 0:
                        rec["status"] = "killed-by-theorem"
                        broken = sorted(set(re.findall(r"error: (VProofs/[A-Za-z0-9_/]+\.lean)", pb.stdout + pb.stderr)))
                        rec["broken_modules"] = broken[:6]
                    else:
                        rec["status"] = "survived"
                else:
                    rec["status"] = "survived-correspondence"
        except subprocess.TimeoutExpired:
            rec["status"] = "timeout"
        rec["seconds"] = round(time.time() - t0, 1)
        open(path, "w").write(orig)
        with lock:
            results.append(rec)
            with open(OUT, "a") as f:
                f.write(json.dumps(rec, ensure_ascii=False) + "\n")
            print(f"[{len(results)}] {rec['status']:26s} {rec['file']}:{rec['line']} `{rec['before'][:70]}` -> {rec['rep']}", flush=True)
    shutil.rmtree(d, ignore_errors=True)


def run_mutants(args):
    sample = int(args[args.index("--sample") + 1]) if "--sample" in args else 120
    jobs = int(args[args.index("--jobs") + 1]) if "--jobs" in args else 4
    seed = int(args[args.index("--seed") + 1]) if "--seed" in args else 1
    if "--files" in args:
        files = ["VModel/" + f for f in args[args.index("--files") + 1].split(",")]
    else:
        files = sorted("VModel/" + f for f in os.listdir(os.path.join(LEAN, "VModel")) if f.endswith(".lean"))
    muts = enumerate_mutants(files)
    total = len(muts)
    random.Random(seed).shuffle(muts)
    done = set()
    if os.path.exists(OUT) and "--fresh" not in args:
        for l in open(OUT):
            r = json.loads(l)
            done.add((r["file"], r["pos"], r["rep"]))
    else:
        os.makedirs(os.path.dirname(OUT), exist_ok=True)
        open(OUT, "w").close()
    queue = [m for m in muts[:sample] if (m["file"], m["pos"], m["rep"]) not in done]
    print(f"{total} candidate mutants in {len(files)} files; running {len(queue)} (sample {sample}, seed {seed}, {jobs} jobs)")
    inputs = corpus_files()
    lock, results = threading.Lock(), []
    ths = [threading.Thread(target=worker, args=(i, queue, lock, results, inputs, "--no-proofs" not in args)) for i in range(jobs)]
    [t.start() for t in ths]
    [t.join() for t in ths]
    shutil.rmtree(SCRATCH, ignore_errors=True)
    report()


def report():
    recs = [json.loads(l) for l in open(OUT)]
    by = {}
    for r in recs:
        by.setdefault(r["status"], []).append(r)
    print(f"{len(recs)} model mutants: " + ", ".join(f"{k}={len(v)}" for k, v in sorted(by.items())))
    for k in ("survived", "survived-correspondence"):
        for r in by.get(k, []):
            print(f"  SURVIVOR {r['file']}:{r['line']}  `{r['before'][:110]}`  [{r['rep']}]")


if __name__ == "__main__":
    cmd = sys.argv[1] if len(sys.argv) > 1 else ""
    if cmd == "collect":
        collect()
    elif cmd == "run":
        run_mutants(sys.argv[2:])
    elif cmd == "report":
        report()
    else:
        print(__doc__)
