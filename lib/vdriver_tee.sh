#!/bin/bash
# diagnostics only (lib/modelmutate.py collect): records what the checks feed to the Lean driver and what it answers
f=$(mktemp "$VERIF_TEE_DIR/in.XXXXXXXX")
tee "$f" | "$VERIF_REAL_DRIVER" | tee "$f.out"
