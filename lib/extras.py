"""extra check steps that are not line-protocol cases (thread run, source scans, feature builds, binaries)"""
import os
import re
import subprocess

ROOT = os.path.dirname(os.path.dirname(os.path.abspath(__file__)))
HARNESS = os.path.join(ROOT, "target", "harness", "release", "vharness")
ENV = dict(os.environ, CARGO_NET_OFFLINE="true")


def threads_extra(tier, seed):
    """C08 thread clause: 16 threads share one predictor; every result equals the sequential one"""
    r = subprocess.run([HARNESS, "threads", tier, str(seed)], capture_output=True, text=True, env=ENV)
    fails = [l for l in r.stdout.splitlines() if l.startswith("FAIL")]
    m = re.search(r"threads predictions=(\d+) failures=(\d+)", r.stdout)
    n = int(m.group(1)) if m else 0
    out = {"name": "threads", "evaluations": n, "failures": [], "suspicions": [], "note": f"16 threads x shared predictor, {n} concurrent predictions compared with sequential results"}
    if r.returncode != 0 or m is None:
        out["failures"].append({"what": "thread run crashed", "stderr": r.stderr[-500:]})
    for f in fails[:3]:
        out["failures"].append({"what": "a concurrent prediction differs from the sequential one", "detail": f[:2000]})
    return out


def send_sync_scan(tier, seed):
    """premise of C08_interleaving: predict() writes no shared state. rustc checks `Predictor: Send + Sync` (static assertion
    in the harness); this scan looks for what would make that check meaningless."""
    src = "/repo/vaporetto/src"
    hits = []
    for dp, _, fs in os.walk(src):
        for fn in fs:
            if not fn.endswith(".rs"):
                continue
            p = os.path.join(dp, fn)
            text = open(p, errors="replace").read()
            body = text.split("#[cfg(test)]")[0]
            for m in re.finditer(r"unsafe\s+impl[^\n]*\b(Send|Sync)\b|static\s+mut\b", body):
                hits.append(f"{os.path.relpath(p, '/repo')}: {m.group(0)}")
            # interior mutability is only expected inside the weight mergers, which die in `new()`
            for m in re.finditer(r"\b(RefCell|Cell|UnsafeCell|Mutex|RwLock|Atomic\w+|OnceCell|OnceLock|thread_local)\b", body):
                if fn in ("char_scorer.rs", "type_scorer.rs") and m.group(1) == "RefCell":
                    continue
                hits.append(f"{os.path.relpath(p, '/repo')}: {m.group(0)}")
    return {"name": "send_sync_scan", "evaluations": 1, "failures": [], "suspicions": sorted(set(hits)),
            "note": "no unsafe impl Send/Sync, no static mut, no interior mutability outside the mergers" if not hits else "interior mutability / unsafe Send-Sync found"}
