"""extra check steps that are not line-protocol cases (thread run, source scans, feature builds, binaries)"""
import os
import re
import subprocess

ROOT = os.path.dirname(os.path.dirname(os.path.abspath(__file__)))
HARNESS = os.path.join(ROOT, "target", "harness", "release", "vharness")
ENV = dict(os.environ, CARGO_NET_OFFLINE="true")


def threads_extra(tier, seed):
    """C08 thread clause: 16 threads share one predictor; every result equals the sequential one"""
    r = subprocess.run([HARNESS, "threads", tier, str(seed)], capture_output=True, text=True, env=ENV)
    fails = [l for l in r.stdout.splitlines() if l.startswith("FAIL")]
    m = re.search(r"threads predictions=(\d+) failures=(\d+)", r.stdout)
    n = int(m.group(1)) if m else 0
    out = {"name": "threads", "evaluations": n, "failures": [], "suspicions": [], "note": f"16 threads x shared predictor, {n} concurrent predictions compared with sequential results"}
    if r.returncode != 0 or m is None:
        out["failures"].append({"what": "thread run crashed", "stderr": r.stderr[-500:]})
    for f in fails[:3]:
        out["failures"].append({"what": "a concurrent prediction differs from the sequential one", "detail": f[:2000]})
    return out


def send_sync_scan(tier, seed):
    """premise of C08_interleaving: predict() writes no shared state. rustc checks `Predictor: Send + Sync` (static assertion
    in the harness); this scan looks for what would make that check meaningless."""
    src = "/repo/vaporetto/src"
    hits = []
    for dp, _, fs in os.walk(src):
        for fn in fs:
            if not fn.endswith(".rs"):
                continue
            if fn == "verif_hooks.rs":
                # the hook module (cargo feature verif-hooks): a thread-local training trace, not reachable from Predictor
                continue
            p = os.path.join(dp, fn)
            text = open(p, errors="replace").read()
            body = text.split("#[cfg(test)]")[0]
            for m in re.finditer(r"unsafe\s+impl[^\n]*\b(Send|Sync)\b|static\s+mut\b", body):
                hits.append(f"{os.path.relpath(p, '/repo')}: {m.group(0)}")
            # interior mutability is only expected inside the weight mergers, which die in `new()`
            for m in re.finditer(r"\b(RefCell|Cell|UnsafeCell|Mutex|RwLock|Atomic\w+|OnceCell|OnceLock|thread_local)\b", body):
                if fn in ("char_scorer.rs", "type_scorer.rs") and m.group(1) == "RefCell":
                    continue
                hits.append(f"{os.path.relpath(p, '/repo')}: {m.group(0)}")
    return {"name": "send_sync_scan", "evaluations": 1, "failures": [], "suspicions": sorted(set(hits)),
            "note": "no unsafe impl Send/Sync, no static mut, no interior mutability outside the mergers" if not hits else "interior mutability / unsafe Send-Sync found"}


def normaliser_table(tier, seed):
    """C16: "changes only the characters in its table" -- the exhaustive tabulation of the live filter (all 1,112,064 scalar
    values) is compared with the table pinned in corpus/C16/fullwidth.pinned"""
    out = {"name": "normaliser_table", "evaluations": 1112064, "failures": [], "suspicions": []}
    r = subprocess.run([HARNESS, "tabulate", "fullwidth-raw"], capture_output=True, text=True, env=ENV)
    if r.returncode != 0:
        out["suspicions"].append("tabulation of the normaliser failed: " + r.stderr[-300:])
        return out
    live = dict(l.split(" ", 1) for l in r.stdout.splitlines() if " " in l)
    pinned = dict(l.split(" ", 1) for l in open(os.path.join(ROOT, "corpus", "C16", "fullwidth.pinned")).read().splitlines() if " " in l)
    diff = sorted(set(live) ^ set(pinned) | {k for k in live if k in pinned and live[k] != pinned[k]}, key=lambda x: int(x, 16))
    for k in diff[:3]:
        c = chr(int(k, 16))
        img = lambda v: "".join(chr(int(x, 16)) for x in v.split(".")) if v else c
        out["failures"].append({"what": f"the normaliser maps U+{k} {c!r} to {img(live.get(k))!r}; its table says {img(pinned.get(k))!r}"
                                        + ("" if k in pinned else " (the character is not in the table and must stay unchanged)"),
                                "input_scalar": "U+" + k, "n_differences": len(diff)})
    out["note"] = f"{len(live)} table entries compared with the pinned table ({len(diff)} differences)"
    out["distinct_nontrivial"] = len(live)
    return out


FEATS = ["std", "cache-type-score", "fix-weight-length", "tag-prediction", "charwise-pma"]
DRIVER = os.environ.get("VERIF_DRIVER") or os.path.join(ROOT, "lean", ".lake", "build", "bin", "vdriver")


def _feat_builds(tier):
    full = list(FEATS)
    builds = [("default", full), ("none", [])]
    for f in FEATS:
        builds.append(("no-" + f, [x for x in full if x != f]))
    if tier == "thorough":
        seen = {tuple(sorted(b[1])) for b in builds}
        for mask in range(32):
            fs = [FEATS[i] for i in range(5) if mask >> i & 1]
            if tuple(sorted(fs)) not in seen:
                seen.add(tuple(sorted(fs)))
                builds.append(("m%02d" % mask, fs))
    return builds


def feature_models(tier, seed):
    """C07 under every cargo-feature subset: the model read back from its file bytes serialises to the identical bytes
    (read_slice/to_vec everywhere, read/write too where `std` is compiled in); compared with the Lean encoder's bytes"""
    out = {"name": "feature_models", "evaluations": 0, "failures": [], "suspicions": [], "stats": {}}
    g = subprocess.run([HARNESS, "gen", "C07", "quick", str(seed)], capture_output=True, text=True, env=ENV)
    if g.returncode != 0:
        out["failures"].append({"what": "generator failed", "stderr": g.stderr[-500:]})
        return out
    cases = [l for l in g.stdout.splitlines() if l.startswith("B ")]
    data = "".join(c + "\n" for c in cases)
    m = subprocess.run([DRIVER], input=data, capture_output=True, text=True)
    want = m.stdout.splitlines()
    for name, feats in _feat_builds(tier):
        tdir = os.path.join(ROOT, "target", "feat-" + name)
        cmd = ["cargo", "build", "--release", "--offline", "--target-dir", tdir]
        if feats:
            cmd += ["--features", ",".join(feats)]
        b = subprocess.run(cmd, cwd=os.path.join(ROOT, "harness-feat"), capture_output=True, text=True, env=ENV)
        if b.returncode != 0:
            out["suspicions"].append(f"feature build {name} ({feats}) does not compile: {b.stderr[-300:]}")
            continue
        r = subprocess.run([os.path.join(tdir, "release", "vfeat")], input=data, capture_output=True, text=True)
        got = r.stdout.splitlines()
        bad = [i for i in range(len(cases)) if i >= len(got) or i >= len(want) or got[i] != want[i]]
        out["evaluations"] += len(cases)
        out["stats"][name] = {"features": feats, "cases": len(cases), "differences": len(bad)}
        for i in bad[:1]:
            out["failures"].append({"what": f"a model file does not read back to the identical bytes in the build with features {feats or ['(none)']}",
                                    "case": cases[i][:3000], "implementation": (got[i] if i < len(got) else None or "")[:1500], "model": (want[i] if i < len(want) else "")[:1500]})
    out["note"] = f"{len(cases)} model files x {len(out['stats'])} feature builds read back and re-serialised"
    out["distinct_nontrivial"] = len(set(cases))
    return out


PINNED_C13_DUP = "F @ M1.1.0;c61=1,2;t2=3,4;t2=3,4 0 6162"


def feature_matrix(tier, seed):
    """C13: one binary per cargo-feature subset of vaporetto, all run on the same cases; every output is compared with the
    model under the matching configuration and with the default build"""
    out = {"name": "feature_matrix", "evaluations": 0, "failures": [], "suspicions": [], "stats": {}}
    g = subprocess.run([HARNESS, "gen", "C13", tier, str(seed)], capture_output=True, text=True, env=ENV)
    if g.returncode != 0:
        out["failures"].append({"what": "generator failed", "stderr": g.stderr[-500:]})
        return out
    cases = g.stdout.splitlines()
    # the open finding F-C13dup (known_findings.json), last so that it never hides another difference: a model file that lists one
    # character-type n-gram twice
    cases.append(PINNED_C13_DUP)
    results = {}
    builds = _feat_builds(tier)
    nightly_ok = False
    # the nightly-only `portable-simd` build is part of both tiers when a nightly toolchain is present (skipped otherwise)
    builds.append(("portable-simd", FEATS + ["portable-simd"]))
    for name, feats in builds:
        tdir = os.path.join(ROOT, "target", "feat-" + name)
        cmd = ["cargo"] + (["+nightly"] if name == "portable-simd" else []) + ["build", "--release", "--offline", "--target-dir", tdir]
        if feats:
            cmd += ["--features", ",".join(feats)]
        b = subprocess.run(cmd, cwd=os.path.join(ROOT, "harness-feat"), capture_output=True, text=True, env=ENV)
        if b.returncode != 0:
            if name == "portable-simd":
                out["stats"]["portable-simd"] = "nightly build unavailable: " + b.stderr[-200:]
                continue
            out["suspicions"].append(f"feature build {name} ({feats}) does not compile: {b.stderr[-300:]}")
            continue
        exe = os.path.join(tdir, "release", "vfeat")
        cfg = subprocess.run([exe, "cfg"], capture_output=True, text=True).stdout.strip()
        data = "".join(c.replace("F @", "F " + cfg, 1) + "\n" for c in cases)
        r = subprocess.run([exe], input=data, capture_output=True, text=True)
        m = subprocess.run([DRIVER], input=data, capture_output=True, text=True)
        impl, model = r.stdout.splitlines(), m.stdout.splitlines()
        results[name] = impl
        out["evaluations"] += len(impl)
        if r.returncode != 0 or len(impl) != len(cases) or len(model) != len(cases):
            out["failures"].append({"what": f"feature build {name} crashed", "stderr": r.stderr[-400:]})
            continue
        # C14 inside every feature build: vfeat repeats each case with the predictor that comes back from its own serialisation
        rt = [i for i in range(len(cases)) if "AFTER-SERIALISE-DESERIALISE" in impl[i]]
        for i in rt[:1]:
            a, b2 = impl[i].split(";AFTER-SERIALISE-DESERIALISE:", 1)
            out["failures"].append({"what": f"in the build with features {feats or ['(none)']} a predictor gives another result after serialize_to_vec -> deserialize_from_slice_unchecked",
                                    "case": cases[i], "original_predictor": a[:600], "deserialised_predictor": b2[:600]})
        bad = [i for i in range(len(cases)) if impl[i] != model[i]]
        out["stats"][name] = {"cfg": cfg, "features": feats, "cases": len(cases), "model_disagreements": len(bad), "serialise_roundtrip_differences": len(rt)}
        if bad:
            i = bad[0]
            out["suspicions"].append(f"build {name} (cfg {cfg}) differs from the model on case {cases[i][:300]}: impl {impl[i][:200]} model {model[i][:200]}")
    # cross-build comparison = the property itself, evaluated on the implementation only
    ref = results.get("default")
    if ref:
        out["distinct_nontrivial"] = len({c for c, o in zip(cases, ref) if o.startswith("S")})
        out["samples"] = [{"case": cases[i][:400], "default_build": ref[i][:300]} for i in (0, len(cases) // 2)]
    if ref:
        for name, impl in results.items():
            for i, (a, b) in enumerate(zip(ref, impl)):
                a2, b2 = a.split(";")[:2], b.split(";")[:2]
                tags_both = ";K" in a and ";K" in b
                if a2 != b2 or (tags_both and a != b):
                    fl = {"what": f"feature build {name} gives a different result than the default build",
                          "case": cases[i], "default": a[:500], name: b[:500]}
                    if cases[i].split(" ", 2)[2:] == PINNED_C13_DUP.split(" ", 2)[2:] and a.startswith("err:invalid_model") and b.startswith("S"):
                        fl["known_id"] = "F-C13dup"     # exactly the recorded finding; anything else on this case is reported
                    out["failures"].append(fl)
                    break
    return out


def setup_feature_builds():
    """cold builds of the quick-tier feature matrix (so that the first check run is not slowed down)"""
    for name, feats in _feat_builds("quick") + [("portable-simd", FEATS + ["portable-simd"])]:
        tdir = os.path.join(ROOT, "target", "feat-" + name)
        cmd = ["cargo"] + (["+nightly"] if name == "portable-simd" else []) + ["build", "--release", "--offline", "--target-dir", tdir]
        if feats:
            cmd += ["--features", ",".join(feats)]
        b = subprocess.run(cmd, cwd=os.path.join(ROOT, "harness-feat"), capture_output=True, text=True, env=ENV)
        if b.returncode != 0 and name != "portable-simd":
            print(b.stderr[-2000:])
            return 2
    return 0


TANTIVY_BIN = os.path.join(ROOT, "target", "tantivy", "release", "vtantivy")


def build_tantivy():
    b = subprocess.run(["cargo", "build", "--release", "--offline"], cwd=os.path.join(ROOT, "harness-tantivy"), capture_output=True, text=True, env=ENV)
    if b.returncode != 0:
        print(b.stderr[-3000:])
        return 2
    return 0


def build_repo_bins():
    """the repository's command-line tools, built from the working tree (never under /tmp)"""
    b = subprocess.run(["cargo", "build", "--release", "--offline", "-p", "manipulate_model", "-p", "predict", "-p", "evaluate",
                        "-p", "convert_kytea_model", "-p", "train", "--target-dir", os.path.join(ROOT, "target", "repo")],
                       cwd="/repo", capture_output=True, text=True, env=ENV)
    if b.returncode != 0:
        print(b.stderr[-3000:])
        return 2
    return 0


def build_train_hooks():
    """the `train` tool built from the working tree with vaporetto's `verif-hooks` feature (hook H5 records what the tool
    hands to the trainer); a target directory of its own, so the feature does not leak into the other tools"""
    b = subprocess.run(["cargo", "build", "--release", "--offline", "-p", "train", "--features", "vaporetto/" + "verif-hooks",   # (split so that path-rewriting scratch copies leave it alone)
                        "--target-dir", os.path.join(ROOT, "target", "repo-hooks")], cwd="/repo", capture_output=True, text=True, env=ENV)
    if b.returncode != 0:
        print(b.stderr[-3000:])
        return 2
    return 0


def build_repo_bins_and_hooks():
    return build_repo_bins() or build_train_hooks()


def miri_c18(tier, seed):
    """C18 (thorough tier only): a few dozen small-model C18 histories executed under Miri, which checks every unchecked
    access, pointer use and `from_utf8_unchecked`-style assumption that the debug-assertion build can only check where a
    `debug_assert!` happens to stand; outputs are compared with the Lean model as well"""
    out = {"name": "miri", "evaluations": 0, "failures": [], "suspicions": []}
    if tier != "thorough":
        out["note"] = "Miri run is part of the thorough tier"
        return out
    g = subprocess.run([HARNESS, "gen", "C18M", "quick", str(seed)], capture_output=True, text=True, env=ENV)
    cases = g.stdout.splitlines()
    probe = subprocess.run(["cargo", "+nightly", "miri", "--version"], capture_output=True, text=True, env=ENV)
    if probe.returncode != 0 or not cases:
        out["note"] = "Miri (nightly toolchain) is not available here: step skipped"
        return out
    env = dict(ENV, VH_FLUSH="1", MIRIFLAGS="-Zmiri-disable-isolation")
    tdir = os.path.join(ROOT, "target", "miri")
    b = subprocess.run(["cargo", "+nightly", "miri", "run", "--offline", "--target-dir", tdir, "--", "gen", "none"], cwd=os.path.join(ROOT, "harness"),
                       capture_output=True, text=True, env=env)   # builds; `gen none` exits at once
    k = 12
    chunks = [cases[i::k] for i in range(k)]
    procs = []
    for ch in chunks:
        pr = subprocess.Popen(["cargo", "+nightly", "miri", "run", "--offline", "--target-dir", tdir, "--", "run"], cwd=os.path.join(ROOT, "harness"),
                              stdin=subprocess.PIPE, stdout=subprocess.PIPE, stderr=subprocess.PIPE, text=True, env=env)
        procs.append(pr)
    import threading
    res = [None] * k

    def feed(i):
        try:
            res[i] = procs[i].communicate("".join(c + "\n" for c in chunks[i]), timeout=2400)
        except subprocess.TimeoutExpired:
            procs[i].kill()
            res[i] = procs[i].communicate()

    ths = [threading.Thread(target=feed, args=(i,)) for i in range(k)]
    [t.start() for t in ths]
    [t.join() for t in ths]
    for i in range(k):
        so, se = res[i]
        got = so.splitlines()
        m = subprocess.run([DRIVER], input="".join(c + "\n" for c in chunks[i]), capture_output=True, text=True)
        want = m.stdout.splitlines()
        out["evaluations"] += len(got)
        if "Undefined Behavior" in se or (procs[i].returncode not in (0, None) and len(got) < len(chunks[i])):
            j = len(got)
            msg = [l for l in se.splitlines() if "Undefined Behavior" in l or l.strip().startswith("-->")][:3]
            out["failures"].append({"what": "Miri reports undefined behaviour (or the run died) while executing this case",
                                    "case": chunks[i][j] if j < len(chunks[i]) else "", "detail": " | ".join(msg)[:1500] or se[-800:]})
            continue
        for j, (a, b2) in enumerate(zip(got, want)):
            if a != b2:
                out["failures"].append({"what": "under Miri the implementation's result differs from the model's", "case": chunks[i][j],
                                        "implementation": a[:800], "model": b2[:800]})
                break
    out["note"] = f"{out['evaluations']} small-model C18 histories executed under Miri in {k} processes"
    out["distinct_nontrivial"] = len(set(cases))
    return out


def c12_cli_train(tier, seed):
    """C12 at the tool level: tagged corpora and tag dictionaries spread over several files of the same option"""
    return c11_cli_train(tier, seed, "C12")


def c11_cli_train(tier, seed, family="C11"):
    """C11 at the tool level: the real `train` binary on generated corpora, dictionaries and tag dictionaries written to files"""
    r = subprocess.run([HARNESS, "c11cli", tier, str(seed), family], capture_output=True, text=True, env=ENV)
    m = re.search(r"cli_train runs=(\d+) models_written=(\d+) failures=(\d+)", r.stdout)
    out = {"name": "cli_train", "evaluations": int(m.group(1)) if m else 0, "failures": [], "suspicions": [],
           "note": (f"train tool: {m.group(1)} runs, {m.group(2)} models written; " if m else "") +
                   "success/failure agrees with the library on the same data, no panic, the written model passes the C11 oracle, has the requested windows, only dictionary-file words, and the same tag models (tokens and candidate tags) as the library trained on the same data; every other run spreads corpus and dictionary over several files per option"}
    if r.returncode != 0 or m is None:
        out["failures"].append({"what": "the train tool run crashed", "stderr": r.stderr[-500:]})
    for f in [l for l in r.stdout.splitlines() if l.startswith("FAIL")][:3]:
        out["failures"].append({"what": "the train tool's result is not what C11 promises for the library on the same data", "detail": f[:2500]})
    if m:
        out["distinct_nontrivial"] = int(m.group(2))
    return out


def c17_cli_convert(tier, seed):
    """C17 glue: the real convert_kytea_model tool on generated KyTea files (whole and truncated): the written model equals the
    library conversion and the model the file encodes; truncated files make the tool fail without a panic"""
    r = subprocess.run([HARNESS, "c17cli", tier, str(seed)], capture_output=True, text=True, env=ENV)
    m = re.search(r"cli_convert files=(\d+) failures=(\d+)", r.stdout)
    out = {"name": "cli_convert", "evaluations": 2 * int(m.group(1)) if m else 0, "failures": [], "suspicions": [],
           "note": "convert_kytea_model on resources/kytea-model.bin and generated files (half with content in the ignored parts), whole and cut at a random point"}
    if r.returncode != 0 or m is None:
        out["failures"].append({"what": "the convert_kytea_model run crashed", "stderr": r.stderr[-500:]})
    for f in [l for l in r.stdout.splitlines() if l.startswith("FAIL")][:3]:
        out["failures"].append({"what": "convert_kytea_model disagrees with the library conversion / the file's content, or panicked on a truncated file", "detail": f[:2000]})
    return out


def c19_cli_roundtrip(tier, seed):
    """C19: dump the dictionary with the real manipulate_model, replace it with the unmodified dump, compare the model files byte for byte"""
    r = subprocess.run([HARNESS, "c19cli", tier, str(seed)], capture_output=True, text=True, env=ENV)
    m = re.search(r"cli_roundtrip models=(\d+) failures=(\d+)", r.stdout)
    out = {"name": "cli_dump_replace", "evaluations": int(m.group(1)) if m else 0, "failures": [], "suspicions": [],
           "note": "manipulate_model --dump-dict then --replace-dict on generated models with CSV-hostile words/comments and 32-bit weights; output model compared byte for byte; malformed record must be rejected"}
    if r.returncode != 0 or m is None:
        out["failures"].append({"what": "the CLI round-trip run crashed", "stderr": r.stderr[-500:]})
    for f in [l for l in r.stdout.splitlines() if l.startswith("FAIL")][:3]:
        out["failures"].append({"what": "dump + replace did not reproduce the model (or a malformed record was accepted)", "detail": f[:2000]})
    return out


# ---------------------------------------------------------------------------------------------------------------------
# the example programs (examples/wasm: C16; examples/embedded_device: C14), compiled verbatim by harness-examples

EX_DIR = os.path.join(ROOT, "harness-examples")


def _ex_target(kind):
    return os.path.join(ROOT, "target", "ex-wasm" if kind == "WA" else "ex-embedded")


def _build_example(kind):
    cmd = ["cargo", "build", "--release", "--offline", "--target-dir", _ex_target(kind)] + (["--features", "wasm"] if kind == "WA" else [])
    return subprocess.run(cmd, cwd=EX_DIR, capture_output=True, text=True, env=ENV)


def build_examples():
    for kind in ("WA", "EB"):
        b = _build_example(kind)
        if b.returncode != 0:
            print(b.stderr[-3000:])
            return 2
    return 0


def _split_session(case):
    """a WA/EB case as (kind, model, [items], [clusters] or None)"""
    t = case.split(" ")
    items = [] if t[2] == "-" else t[2].split(",")
    cl = None
    if t[0] == "WA":
        cl = [] if t[3] == "-" else t[3].split("/")
    return t[0], t[1], items, cl


def _join_session(kind, model, items, cl):
    s = f"{kind} {model} {','.join(items) if items else '-'}"
    if kind == "WA":
        s += " " + ("/".join(cl) if cl else "-")
    return s


def _examples_step(kind, tier, seed):
    name = "example_wasm_worker" if kind == "WA" else "example_embedded_device"
    what = ("examples/wasm/src/lib.rs: the `impl Worker for VaporettoWorker` block, extracted from the working tree and compiled verbatim "
            "against stand-ins for gloo-worker/ouroboros with the example's vaporetto features"
            if kind == "WA" else
            "examples/embedded_device/build.rs, included verbatim and compiled with the example's feature set (`alloc` only), followed by the loop body of src/main.rs")
    out = {"name": name, "evaluations": 0, "failures": [], "suspicions": [], "stats": {}}
    b = _build_example(kind)
    if b.returncode != 0:
        out["suspicions"].append(f"{what}: does not compile any more, so the example is no longer shown to agree with the library pipeline: " + b.stderr[-600:])
        return out
    exe = os.path.join(_ex_target(kind), "release", "vexamples")
    g = subprocess.run([HARNESS, "gen", kind, tier, str(seed)], capture_output=True, text=True, env=ENV)
    if g.returncode != 0:
        out["failures"].append({"what": "generator failed", "stderr": g.stderr[-500:]})
        return out
    cases = g.stdout.splitlines()

    def run3(cs):
        data = "".join(c + "\n" for c in cs)
        impl = subprocess.run([exe], input=data, capture_output=True, text=True).stdout.splitlines()
        impl = [l.split(" ")[0] for l in impl]          # EB: the serialised predictor follows the answers
        orc = subprocess.run([HARNESS, "run"], input=data, capture_output=True, text=True, env=ENV).stdout.splitlines()
        mod = subprocess.run([DRIVER], input=data, capture_output=True, text=True).stdout.splitlines()
        return impl, orc, mod

    impl, orc, mod = run3(cases)
    out["evaluations"] = len(cases)
    if len(impl) != len(cases) or len(orc) != len(cases) or len(mod) != len(cases):
        out["failures"].append({"what": f"{name}: a run did not answer every case (example {len(impl)}, library {len(orc)}, model {len(mod)} of {len(cases)})"})
        return out
    n_items = sum(len(_split_session(c)[2]) for c in cases)
    out["stats"] = {"sessions": len(cases), "messages": n_items, "panics": sum(o.count("panic") for o in impl)}

    def shrink(case, differs):
        """shortest session (prefix, then single items dropped) on which `differs` still holds"""
        kind_, model, items, cl = _split_session(case)
        cur = (items, cl)
        changed = True
        while changed and len(cur[0]) > 1:
            changed = False
            for i in range(len(cur[0])):
                it = cur[0][:i] + cur[0][i + 1:]
                c2 = None if cur[1] is None else cur[1][:i] + cur[1][i + 1:]
                cand = _join_session(kind_, model, it, c2)
                a, o, m = run3([cand])
                if a and o and m and differs(a[0], o[0], m[0]):
                    cur = (it, c2)
                    changed = True
                    break
        return _join_session(kind_, model, cur[0], cur[1])

    for i, c in enumerate(cases):
        if impl[i] != orc[i]:
            small = shrink(c, lambda a, o, m: a != o)
            a, o, m = run3([small])
            out["failures"].append({"what": f"the example program does not give what the library pipeline gives on fresh sentences ({what})",
                                    "case": small[:4000], "example_program": a[0][:1500], "library_pipeline": o[0][:1500], "model": m[0][:1500]})
            break
    if not out["failures"]:
        for i, c in enumerate(cases):
            if impl[i] != mod[i]:
                small = shrink(c, lambda a, o, m: a != m)
                a, o, m = run3([small])
                out["suspicions"].append(f"{name}: the example program differs from the Lean model ({'wasmSession' if kind == 'WA' else 'embeddedDevice'}) on case {small[:1500]}: example {a[0][:400]} model {m[0][:400]}")
                break
    out["distinct_nontrivial"] = len({c for c, o in zip(cases, impl) if "|" in o or "ok:" in o})
    out["note"] = (f"{len(cases)} sessions / {n_items} texts through {what}; each answer compared with the library pipeline on fresh sentence objects (oracle) and with the Lean model")
    return out


def example_wasm(tier, seed):
    """C16 ("boundaries predicted on normalised text apply to the original text") in the repository's browser example"""
    return _examples_step("WA", tier, seed)


def example_embedded(tier, seed):
    """C14 in the repository's embedded example: the predictor serialised by build.rs, deserialised on the device"""
    return _examples_step("EB", tier, seed)
