#!/usr/bin/env python3
"""False-alarm test:  python3 lib/benigntest.py benign/<name> [--checks C01,C02]

Applies a behaviour-preserving refactoring (written by a sub-agent that was told to change nothing observable) to /repo's
working tree, runs the quick checks (default: all 20), records which ones alarm in benign/<name>/result.json and ALWAYS
reverts /repo. Every alarm has to be explained: either the refactoring did change behaviour (then the alarm is right and
the replay shows it) or the check is wrong (then the check is corrected; see DESIGN.md section 10)."""
import json, os, subprocess, sys, time

ROOT = os.path.dirname(os.path.dirname(os.path.abspath(__file__)))
REPO = "/repo"
ENV = dict(os.environ, CARGO_NET_OFFLINE="true")


def sh(cmd, cwd=None):
    return subprocess.run(cmd, cwd=cwd, shell=isinstance(cmd, str), capture_output=True, text=True, env=ENV)


def main():
    d = os.path.abspath(sys.argv[1])
    checks = [f"C{i:02d}" for i in range(1, 21)]
    if "--checks" in sys.argv:
        checks = sys.argv[sys.argv.index("--checks") + 1].split(",")
    assert sh("git status --porcelain", cwd=REPO).stdout.strip() == "", "/repo is not clean"
    res = {"name": os.path.basename(d), "at": time.strftime("%Y-%m-%d %H:%M:%S"), "checks": {}}
    try:
        a = sh(["git", "apply", os.path.join(d, "patch.diff")], cwd=REPO)
        if a.returncode != 0:
            res["error"] = "patch does not apply: " + a.stderr[-500:]
            return
        st = sh("git diff --stat | tail -1", cwd=REPO).stdout.strip()
        res["diffstat"] = st
        # the binaries the CLI checks use are rebuilt from the working tree by the checks themselves
        for c in checks:
            r = sh([os.path.join(ROOT, "check"), c, "--tier", "quick"], cwd=ROOT)
            viol = [l for l in r.stdout.splitlines() if l.startswith("VIOLATION")]
            e = {"exit": r.returncode, "violations": viol}
            for v in viol[:2]:
                try:
                    rp = v.split("replay=")[1].split()[0]
                    rj = json.load(open(os.path.join(ROOT, rp)))
                    e.setdefault("replays", []).append({k: str(rj[k])[:800] for k in ("case", "oracle_message", "no_longer_checks", "what", "detail", "implementation", "model") if k in rj})
                except Exception:
                    pass
            res["checks"][c] = e
        res["alarms"] = [c for c, e in res["checks"].items() if e["exit"] != 0]
    finally:
        sh("git checkout -- . && git clean -fdq", cwd=REPO)
        json.dump(res, open(os.path.join(d, "result.json"), "w"), indent=1, ensure_ascii=False)
        print(json.dumps({k: v for k, v in res.items() if k != "checks"}, ensure_ascii=False))


if __name__ == "__main__":
    main()
