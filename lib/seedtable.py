#!/usr/bin/env python3
"""prints the markdown table of DESIGN.md section 11 from seeded/*/meta.json and seeded/*/result.json"""
import glob, json, os
ROOT = os.path.dirname(os.path.dirname(os.path.abspath(__file__)))
print("| seed | what the change does | caught by | how it is reported |")
print("|---|---|---|---|")
for d in sorted(glob.glob(os.path.join(ROOT, "seeded", "*"))):
    if not os.path.exists(os.path.join(d, "meta.json")) or not os.path.exists(os.path.join(d, "result.json")):
        continue
    m = json.load(open(os.path.join(d, "meta.json")))
    r = json.load(open(os.path.join(d, "result.json")))
    caught, how = [], []
    for k, v in r.get("checks", {}).items():
        if v["exit"] == 1:
            caught.append(k)
            for vl in v["violations"][:1]:
                kind = vl.split("replay=replays/")[1].split("-", 1)[1].rsplit("-", 1)[0]
                how.append(kind + (" (no-failing-input-found)" if vl.endswith("no-failing-input-found") else ""))
    summ = m["summary"].replace("|", "\\|").replace("\n", " ")
    if len(summ) > 230:
        summ = summ[:227] + "…"
    print(f"| `{os.path.basename(d)}` | {summ} | {', '.join(caught) or '**missed**'} | {', '.join(sorted(set(how)))} |")
