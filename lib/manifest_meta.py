HOOKS = {
    "guard": "cargo feature `verif-hooks` on crate vaporetto",
    "enable": "the harness crates depend on /repo/vaporetto with features [\"kytea\", \"train\", \"verif-hooks\"]; for hook H5 the `train` tool is "
              "built with `cargo build -p train --features vaporetto/verif-hooks` into /verif/target/repo-hooks and run with the environment "
              "variable VAPORETTO_VERIF_DUMP naming a scratch file (without the feature, or without the variable, nothing is recorded)",
    "baseline_off_cmd": "cd /repo && cargo test --workspace --no-fail-fast --offline",
    "source_commits": ["cf6fd43", "9557e87", "9e3509a", "16fb2df", "0071c72", "3d1b036"],
    "add_only": True,
}
NOTES = ("Every check rebuilds the Rust harness against /repo's working tree, regenerates lean/VModel/Generated/* by exhaustive "
         "tabulation, rebuilds the property's Lean proof module and the driver, audits axioms, runs corpus + generated + "
         "exhaustive cases through implementation and model, and evaluates the property's oracle on the implementation. "
         "See DESIGN.md.")
NOT_YET = {}
_common_note = ("Trusted: Lean 4.33 kernel; axioms within {propext, Quot.sound, Classical.choice}; the hand-written model lean/VModel "
                "(modelled, not verified; tied to the code by the differential correspondence run of every check); the translator; "
                "the harness generators/oracles. ")
META = {
    "C02": {
        "text": "Unbounded Lean theorems: the mirrored TokenIterator (Rust variables kept) equals the segment specification for every "
                "label vector (C02_iter_eq_spec), and for unknown-free vectors the tokens form a gap-free chain of non-empty spans "
                "from 0 to n, break exactly at W, and concatenate to the text (C02_partition_*); writer and surface corollaries. "
                "Tied to /repo by exhaustive (all label vectors n<=8/11) and random differential runs plus an independent oracle "
                "on the real Sentence.",
        "design_ref": "DESIGN.md §6 C02",
        "note": _common_note + "char_to_str_pos/str_to_char_pos are modelled as functions of the text.",
        "technique": "Lean 4 proof by induction over the label list on a hand-written model + differential correspondence",
    },
    "C05": {
        "text": "Unbounded Lean theorems over the mirrored parsers and the Sentence record: every constructor/update is Safe (never "
                "panic/ub) for every input string (C05_total), a failed update leaves exactly the default sentence (C05_err_default), "
                "a successful update yields exactly the record the constructor builds from the same input, field by field "
                "(C05_ok_describes), the consistency invariant holds for the default sentence, is preserved by every op and hence "
                "by every history (C05_history_inv, induction over the op list), and on a consistent sentence every accessor, "
                "writer and iterator is Safe, for arbitrary label vectors (C05_accessors). Tied to /repo by exhaustive short-string / "
                "short-history and random differential runs with observation after every call, plus an implementation-side oracle.",
        "design_ref": "DESIGN.md §6 C05",
        "note": _common_note + "Panics of the Rust code are located by hand (unwrap, indexing, slicing, division) when writing the model; "
                "a panic site missed by the model shows up as a correspondence disagreement only if the generators reach it.",
        "technique": "Lean 4 proof: parser loop invariants + sentence invariant by induction over operation histories; differential correspondence",
    },
    "C04": {
        "text": "Unbounded Lean theorems over the mirrored partial-annotation parser (alternating is_char state machine, escapes inside "
                "tags) and writer: for every sentence with non-empty NUL-free text, any N/W/U labels and any non-empty tags on any "
                "character (delimiters and NUL allowed inside tags), parse(write s) returns the same text, the same label at every "
                "boundary and the same tags at every character up to trailing absent tags (C04_roundtrip); every accepted string "
                "yields such a sentence (C04_parsed_wf). Tied to /repo by random round trips with 60% delimiter characters in tags, "
                "exhaustive short-string parser runs, and an implementation-side round-trip oracle.",
        "design_ref": "DESIGN.md §6 C04",
        "note": _common_note + "The writer model escapes {space,-,|,/,\\} in tags, i.e. it is the writer after fix commit 8c39a01.",
        "technique": "Lean 4 proof: parser-state invariant by induction over the written characters; differential correspondence",
    },
    "C03": {
        "text": "Unbounded Lean theorems over the mirrored tokenized parser ((escape, c) state machine with the Rust variables) and "
                "writer: for every fully segmented sentence (non-empty NUL-free text incl. spaces/slashes/backslashes, non-empty "
                "NUL-free tags) parse(write s) returns the same text, boundaries and per-token tags up to trailing absent tags "
                "(C03_roundtrip); every accepted string yields such a sentence (C03_parsed_wf); write-after-parse is idempotent on "
                "every accepted string (C03_idempotent). Tied to /repo by random round trips (35-45% special characters), "
                "exhaustive strings (len<=4/6 over 7 symbols incl. NUL, 4-byte chars), and an implementation-side oracle that also "
                "checks the written bytes are valid UTF-8.",
        "design_ref": "DESIGN.md §6 C03",
        "note": _common_note + "The byte-wise escaper of the Rust writer is modelled character-wise; that the inserted 0x5C bytes keep the "
                "buffer valid UTF-8 is checked on the implementation (from_utf8 on every written buffer), not proved (C03_utf8 is not "
                "stated in Lean yet).",
        "technique": "Lean 4 proof: parser-state invariant by induction over tokens and escaped runs; differential correspondence",
    },
    "C01": {
        "text": "Unbounded Lean theorems on a model that mirrors the predictor: += on positional weights adds denotations "
                "(C01_addAssign_denote); add_score in both layouts (fixed 8-wide / variable incl. left overhang) never panics under "
                "the stated bounds and adds exactly the denoted weight (C01_addScore); the mirrored merge algorithm (sorted map, "
                "visited flags, suffix chain, back-propagation) gives every pattern the sum over all its suffix patterns "
                "(C01_merge_correct, generic in the weight type); the type-score cache equals the type n-gram part of the "
                "specification (C01_cache_correct); and the main theorem C01_scores: for every well-formed model, every build "
                "configuration (fixed/variable, cache/automaton, with/without tag scorer), every predictor built from it and every "
                "non-empty text, predict does not panic, boundary_scores = the pointwise linear model (pattern-indexed sum over all "
                "occurrences), labels = sign of the score with no unknown left, nothing else changes. Tied to /repo by an exhaustive "
                "small scope and random well-formed models (all window classes) with a brute-force oracle in the harness. "
                "Window size 0 (outside this property's quantifier, inside C09/C11's) is covered by C01_scores_window0 for WFModel0: a zero window switches the n-grams of that kind off, whatever the list contains; dictionary words and tag n-grams still count. "
                "The other C01 theorems hold for window size 0 as well (C01_predict_overwrites*_window0, C01_score_local_window0). "
                "i32: scores are unbounded Int in the model; C01_no_overflow turns the former no-overflow ASSUMPTION into a theorem under an explicit bound: "
                "with mass(m) = |bias| + sum of |w| over all weights of the n-grams and words that count, every specification score (C01_spec_bounded, any model), "
                "every value produced by either phase of the weight mergers and every stored merged weight or cache entry (C01_merged_bounded: the generic merger run with an "
                "overflow-checked += returns the same result) and every slot of the padded score buffer after ANY prefix of the character or type pass (C01_running_bounded) "
                "is at most mass(m) in absolute value; mass < 2^31 therefore keeps every + of Predictor::new and Predictor::predict inside i32. Sharp: decide-checked models "
                "with mass 2^31-1 (attained) and 2^31 (overflows). Tied to /repo by a generator family of models with mass exactly 2^31-1 (and a little less) on texts where one "
                "boundary collects every weight, run in the overflow-checked harness build.",
        "design_ref": "DESIGN.md §6 C01",
        "note": _common_note + "No i32 overflow is proved for models with mass < 2^31 (C01_no_overflow) and remains an assumption beyond that bound (tag scores: C06); the daachorse "
                "automaton contract (longest pattern per end position; all patterns for the cache builder); byte-wise and "
                "character-wise automata coincide at character level; get_type codes in 1..6 are re-derived from the regenerated table.",
        "technique": "Lean 4 proof (merge invariant, longest-match/all-occurrences exchange of sums, buffer arithmetic) + translator table + differential correspondence",
    },
    "C07": {
        "text": "Unbounded Lean theorems over a byte-exact model of the bincode-2 standard() wire format of Model (varints with "
                "251/252/253 discriminants, zigzag, raw u8, length-prefixed vectors and validated UTF-8 strings, struct field "
                "order, magic header): read_slice(to_vec m ++ rest) = (m, rest) and read likewise for every encodable model "
                "(C07_roundtrip, C07_read_roundtrip, C07_bytes_stable); EVERY proper prefix of a model file is rejected with an "
                "error by both readers, which also covers a reader failing after k bytes (C07_prefix_rejected, via a 'strict "
                "decoder' structure closed under sequencing and counted repetition); any different header and any input shorter "
                "than the header is rejected (C07_foreign_header, C07_short_input); a writer failing part-way yields an error "
                "(C07_faulty_writer). Tied to /repo by comparing the model's bytes with Model::to_vec byte for byte and by running "
                "both readers on every prefix, header mutation, trailing bytes and fault position of generated files and of "
                "resources/model.bin.",
        "design_ref": "DESIGN.md §6 C07",
        "note": _common_note + "bincode's own code is not verified; its derive order and primitive encodings are validated by the byte-for-byte "
                "comparison. Crafted corrupt length prefixes (outside the property's quantifier) make the real decoder panic or abort; "
                "the model returns a decode error there and no theorem about such inputs is claimed.",
        "technique": "Lean 4 proof: strict-decoder combinators (round trip + all proper prefixes rejected), UTF-8 and varint round trips; differential correspondence",
    },
    "C13": {
        "text": "In the Lean model every feature-dependent branch is selected by Cfg (fixed, cache, tagPred) and the property is the "
                "theorem that the branches coincide: any two configurations give identical scores and boundaries for every "
                "well-formed model, predictor and non-empty text (C13_scores_cfg_independent, with the three named corollaries "
                "fixed=variable, cache=automaton, tag scorer=plain), all from C01_scores ('each variant equals the specification'). "
                "Tied to /repo by compiling one binary per cargo-feature subset (7 quick / 32 thorough, + portable-simd on nightly "
                "when it builds), running all on the same cases, and comparing each with the model under the matching Cfg and with "
                "the default build (tags included wherever tag prediction is compiled in).",
        "design_ref": "DESIGN.md §6 C13",
        "note": _common_note + "One open known finding (F-C13dup, known_findings.json / DESIGN.md 7.2a): a model file with a repeated character-type n-gram is refused by builds with cache-type-score and scored by builds without; the check exercises it in every build and prints KNOWN-FINDING. charwise-pma, std and portable-simd have no counterpart in the model (identified implementations); for them the "
                "check is the feature-matrix run (differential), not a theorem. Tag equality across builds is a differential result until C06 is proved.",
        "technique": "Lean 4 proof (corollaries of C01_scores over Cfg) + per-feature-subset differential builds",
    },
    "C15": {
        "text": "Unbounded Lean theorems over the mirrored filters (unchecked accesses modelled as checked ones that yield ub): on every "
                "consistent sentence each filter returns ok (no panic, no out-of-range unchecked access), changes nothing but the "
                "boundaries (resp. tags), and the new value of every boundary/tag slot is given pointwise by its rule — same type on "
                "both sides -> N (C15_wsconst); CR/LF adjacent -> W (C15_linebreaks); inside a cluster -> N for EVERY segmentation into "
                "clusters of >=1 characters (C15_graphemes); only absent slots of tokens whose surface has a rule are filled, with the "
                "rule's entry (C15_tagger); the invariant is preserved (C15_inv) and all four are idempotent (C15_idem_*). Tied to /repo "
                "by exhaustive short sentences x all label vectors and random grapheme-rich texts, with an independent pointwise oracle "
                "and an idempotence oracle on the real filters.",
        "design_ref": "DESIGN.md §6 C15",
        "note": _common_note + "unicode-segmentation itself is not modelled (its output is an input of the model).",
        "technique": "Lean 4 proof: pointwise characterisation of each mirrored loop by induction; idempotence from the pointwise form; differential correspondence",
    },
    "C14": {
        "text": "Lean theorems on two layers of the serialised predictor. Value level: a WeightVector survives the wire (trim_end_zeros, "
                "then From<Vec<i32>> re-pads) unchanged (C14_weightvector); every predictor built by Predictor::new — plain, cached and "
                "tagged scorers, every build configuration — is a fixed point of serialise->deserialise (C14_roundtrip, by showing every "
                "weight vector inside it is canonical), hence identical scores, boundaries, tags and tag scores on every sentence "
                "(C14_same_behaviour). Byte level: the outer PredictorData record (Option<bytes> scorers, bias, Option<map> tag "
                "predictors, n_tags) decodes from `bytes ++ rest` to itself and exactly `rest`, for arbitrary scorer blobs "
                "(C14_remainder). Tied to /repo by predictor pairs (original vs round trip, with trailing bytes) observed on texts, and "
                "by decoding/re-encoding the outer record of the real serialised bytes with the Lean codec. The anchored example "
                "examples/embedded_device/build.rs is compiled verbatim from the working tree with the example's feature set (alloc only); the "
                "predictor file it writes is loaded as the device does and compared with the library pipeline (oracle) and with the model "
                "(embeddedDevice); theorems C14_embedded_device, C14_embedded_cfg_independent, C14_embedded_total.",
        "design_ref": "DESIGN.md §6 C14, §6.1 Examples",
        "note": _common_note + "The automaton blob and the hash-map iteration order are opaque (daachorse / hashbrown contracts); the two layers are "
                "connected only through the correspondence run, not by a theorem.",
        "technique": "Lean 4 proof: canonical-weight-vector invariant through Predictor::new; strict-decoder framing of the envelope; differential correspondence",
    },
    "C08": {
        "text": "Lean theorems: from ANY sentence state (reachable or not), update_raw(x) yields exactly the record from_raw(x) "
                "constructs, so the probe update_raw(x); predict; [fill_tags] equals the same probe on a fresh sentence as a value of "
                "the whole sentence record (scores, boundaries, tags, tag count, stored tag scores, predictor reference) — C08_reuse, "
                "C08_reuse_history; and for one predictor shared by many threads, every interleaving of calls gives each thread the "
                "result of its own calls run sequentially (C08_interleaving, induction over schedules on the functional model). The "
                "history operations are the datatype HOp whose semantics the driver executes, so the correspondence run (random "
                "histories incl. filters, failing updates, four predictors) ties exactly these definitions to /repo. Thread clause: "
                "16-thread run against sequential results + rustc's Send/Sync check + source scan for interior mutability.",
        "design_ref": "DESIGN.md §6 C08",
        "note": _common_note + "'Never panics' for whole histories (updates incl. rejected input, predict with any predictor, fill_tags, resets, slice writes, "
                "all filters) is the theorem C18_history_safe in VProofs/C18.lean. PARTIAL on one point: hardware interleavings below call "
                "granularity are not modelled.",
        "technique": "Lean 4 proof (record equality after update_raw; induction over schedules) + differential correspondence + multi-thread run",
    },
    "C16": {
        "text": "Translator + Lean theorems. The normaliser's table is REGENERATED on every run by evaluating the compiled "
                "KyteaFullwidthFilter on all 1,112,064 Unicode scalar values; C16_norm_len, C16_norm_idem and C16_norm_only_table are "
                "proved from three whole-table checks (every image is one valid non-NUL scalar; no image is a key) by decide +kernel, "
                "so a changed table entry that breaks the property breaks a proof obligation, and the all-scalars oracle supplies "
                "the failing character. Stream: for every predictor/filter set, the tokens tile the ORIGINAL text — start 0, contiguous, "
                "non-empty, on character boundaries, carrying the original substring, positions 0,1,2,…, end = byte length "
                "(C16_tiling, C16_empty), they break exactly at the pipeline's W labels (C16_breaks_eq_pipeline), and for every "
                "well-formed model the pipeline keeps one boundary per adjacent character pair of the original text "
                "(C16_pipeline_len, using C16_norm_len, C01_scores and the C15 filter theorems). Tied to /repo by a harness driving "
                "the real VaporettoTokenizer against the model, with offset/tiling/text/position/break oracles. The anchored browser example "
                "(examples/wasm/src/lib.rs) is inside the tie as well: its `impl Worker for VaporettoWorker` block is extracted from the working "
                "tree on every run and compiled verbatim against stand-ins for gloo-worker/ouroboros; sessions of messages on one worker are "
                "compared with the library pipeline on fresh sentences (oracle) and with the Lean model wasmSession; theorems "
                "C16_wasm_reuse_invisible, C16_wasm_answer (one token per pipeline token, original characters, pipeline tags, surfaces "
                "concatenate to the message), C16_wasm_rejected, C16_wasm_empty.",
        "design_ref": "DESIGN.md §6 C16, §6.1 Examples",
        "note": _common_note + "tantivy's TextAnalyzer plumbing and Token struct are not modelled; NUL-containing text is emitted as one token (fix F-C16).",
        "technique": "translator (exhaustive tabulation -> regenerated Lean table, decide +kernel) + Lean 4 proof over byte-offset lists + differential correspondence",
    },
    "C06": {
        "text": "Unbounded Lean theorems on the mirrored tag path (tag entries merged along suffixes with boundary entries, "
                "per-(token, rel) hash maps, recorded automaton states, zip-added class vectors in fixed/variable layout, the "
                "range_start loop, argmax with class offsets): for every well-formed model and tag models, every build "
                "configuration, every text and ANY boundary vector carried after prediction (incl. unknowns, as filters may write), "
                "fill_tags does not panic, sets the tag count to the widest tag model, gives every unknown-free token with a tag "
                "model, per category, the first-best candidate of bias + sum of the tag n-gram weights occurring at their stated "
                "offset from the token's last character (single candidate / none for short categories), every other slot no tag, "
                "and nothing else changes (C06_tags, C06_argmax); with score storing, tag_candidates reports exactly those sums, "
                "0 for single candidates (C06_candidates); a model without categories leaves the sentence as is (C06_no_categories). "
                "Tied to /repo by random tag models (ties, 0/1/2/3/9 candidates, empty boundary models) with edited boundaries and a "
                "brute-force per-token classifier oracle in the harness. "
                "C06_predictTags_window0 / C06_tags_window0 / C06_candidates_window0 state the same for models with a window size of 0 (WFModel0); the specification does not depend on the boundary n-grams (C06_spec_dropW0). "
                "i32: with TagModel.mass = sum of |bias| and of |w| over all tag n-gram weight vectors of ONE tag model (WModel.tagMass = the maximum over the tag models: vectors of different "
                "tokens are never added together), every specified class score (C06_spec_bounded, any model; per class C06_spec_bounded_class), every value a checked += on PositionalWeightWithTag produces in "
                "either merger phase and every entry of the tag_weight tables and bias vectors (C06_merged_bounded), and the score vector of a token after the bias and after EVERY prefix of either "
                "add_tag_scores loop (C06_running_bounded) is at most that mass in absolute value; tagMass < 2^31 keeps tag scoring inside i32 (C06_no_overflow; with C01: C06_no_overflow_all). Sharp by decide-checked models. "
                "Generators add candidate counts around multiples of 8 with weight vectors that are zero from some position on. "
                "Hash-map order: C06_taginfo_perm — building the predictor with every merge of two tag-weight maps and every walk over a merged map done in an ARBITRARY order gives the same predictor, and a predictor whose "
                "table cells and token map are listed in any order predicts and tags identically (chain: C06_taginfo_add_equiv, _addAll_equiv, _merge_equiv, _fill_perm, _build_perm, C06_tagweight_cell_perm, C06_tag_predictor_lookup_perm).",
        "design_ref": "DESIGN.md §6 C06",
        "note": _common_note + "daachorse contract as in C01 (longest pattern per end position is what the recorded state holds).",
        "technique": "Lean 4 proof (merge invariant instantiated at (token, rel, class) evaluations; loop = specSeg; row non-interference) + differential correspondence",
    },
    "C10": {
        "text": "Lean theorems on the mirrored feature extraction and example collection: the examples handed to the learner are exactly "
                "one per annotated boundary, in order, labelled by the annotation, with the features of that boundary (C10_examples); a "
                "sentence whose boundaries are all unknown contributes nothing, so adding it anywhere in a corpus leaves the training "
                "problem unchanged (C10_unknown_neutral); a character / type n-gram feature is present, exactly once, iff it is an "
                "n-gram [j, j+l) with 1<=l<=N inside the window [i+1-W, i+1+W) clipped to the text, with rel = j-i-1 — for all sizes "
                "incl. N=0, W=0, N>2W (C10_char_ngram_spec, C10_type_ngram_spec); dictionary features are counted one per "
                "dictionary-word occurrence touching the boundary, left/inside/right by length bucket (C10_dict_spec, "
                "C10_dict_matches). Tied to /repo through hook H2 (Trainer::verif_examples): the stored examples, with feature ids "
                "decoded, must equal the model's examples and an independent enumeration in the harness. At the level of the `train` tool "
                "(VModel/TrainCli.lean, tied through hook H5, which records the arguments of Trainer::new and of every add_example while the "
                "real tool runs): every accepted corpus line reaches the learner as one sentence, in order, over the normalised text with the "
                "labels, tag count and tags of the line, the identity under --no-norm; a rejected line is an error; nothing panics "
                "(C10_train_tool_line, C10_train_tool_corpus).",
        "design_ref": "DESIGN.md §6 C10",
        "note": _common_note + "Feature-id assignment and the sparse-vector layout handed to liblinear are not modelled (the hook decodes ids back to features).",
        "technique": "Lean 4 proof (counting lemmas over the mirrored loops) + hook-based differential correspondence",
    },
    "C12": {
        "text": "Lean theorems on the mirrored tag trainer bookkeeping: per category the model lists exactly the distinct tags observed "
                "for the token, each once, with as many categories as the widest example (C12_candidates); the assembled tag model "
                "carries the token, those candidate lists, a bias and weight vectors with exactly one entry per trainable candidate "
                "(C12_sizes); a token gets a tag model iff it occurs with tag slots in the corpus or only in the tag dictionary with a "
                "tag, each token once, corpus examples winning over the dictionary (C12_tokens); and for ANY class scores the "
                "prediction rule gives a single-candidate category that candidate, a multi-candidate category one of them, an empty "
                "category none (C12_pick). The score-equality clause is the composition with C06 (stored scores = classifier sums) "
                "and is tied to /repo through hook H3: the Lean model must assemble the byte-identical tag models from the recorded "
                "quantised weights, and the harness recomputes the stored tag scores from its own tag-feature enumeration. "
                "Hash-map order is unobservable (C12_assemble_perm, C12_assemble_perm_features, C12_assemble_dict_perm). Which tag a class of the learner was trained for is tied by the separable-corpus "
                "cases (oracle c12sep: with the gold boundaries every training sentence of a linearly separable tag corpus gets its own tags back).",
        "design_ref": "DESIGN.md §6 C12",
        "note": _common_note + "liblinear and the f64 quantisation are outside the model (hook trace). The end-to-end statement 'stored tag scores equal the "
                "quantised classifier on the trainer's tag features' is established differentially (oracle on the trained models), not as one theorem.",
        "technique": "Lean 4 proof (fold invariants over the mirrored bookkeeping) + hook-based differential correspondence (byte-identical assembled models)",
    },
    "C19": {
        "text": "Lean theorems: replacing the dictionary changes the specified score of every boundary by exactly the new entries' minus "
                "the old entries' weights over all occurrences, for every model and text (C19_replace_delta; with C01 this is the "
                "predictor's score), and changes no other field (C19_replace_frame); the weights column (decimal i32s joined by single "
                "spaces, as the tool writes it) parses back to the same list for every non-empty list of 32-bit values incl. negatives "
                "(C19_weights_roundtrip, decimal printer/parser modelled); records whose weight count differs from word length + 1 are "
                "rejected, all others accepted (C19_record_check); loading the unmodified dump reproduces the dictionary and hence the "
                "model (C19_dump_replace, given the CSV three-column contract). That contract is no longer assumed: VModel/CsvFile.lean models the FILE level — the csv crate's writer "
                "(quote a field iff it contains , \" CR or LF; double the quotes; a record of one empty field is written as \"\"; header before the first record, empty dictionary = empty file) and "
                "its reader (the csv-core state machine with the crate's defaults: LF, CR LF and CR terminate, blank lines skipped, lenient quotes), and the tool's loading on top of it — and "
                "C19_csv_roundtrip (parse(write records) = records for ALL non-empty records of arbitrary fields), C19_csv_variants (every field optionally quoted, any CR/LF run as terminator, blank lines, "
                "missing final terminator), C19_csv_contract, C19_dump_file_roundtrip (load(dump d) = d for every dictionary with i32 weights and one weight per character + 1), "
                "C19_dump_file_replace_model, C19_dump_file_strict / C19_written_file_strict (what the writer produces lies inside the domain where the model claims to agree with the real reader), "
                "C19_load_file_rejects / _fieldcount (bad weight counts, unparsable weights and wrong field counts are rejected) and C19_load_file_total prove it. Tied to /repo by replace_dictionary cases with a "
                "score-delta oracle, by comparing the weights column written by the REAL manipulate_model with the model's, and by the "
                "end-to-end CLI dump->replace run (byte-identical model files; malformed record rejected); DF cases compare the file the real tool dumps with the model's byte for byte, "
                "LF cases what the real tool loads from hand-made files (all fields quoted, CRLF, blank lines, no final line break, bad records, the empty file) with the model's answer.",
        "design_ref": "DESIGN.md §6 C19",
        "note": _common_note + "PARTIAL: zstd, serde's by-name column mapping for headers other than word,weights,comment, BOM handling and non-UTF-8 bytes are outside the modelled (strict) domain; "
                "the csv reader/writer model is tied to the csv crate by the DF/LF cases.",
        "technique": "Lean 4 proof (decimal round trip, split/join, spec algebra) + differential correspondence + end-to-end CLI run",
    },
    "C09": {
        "text": "Lean theorems with the learner universally quantified (any list of distinct features with quantised weights and any bias): "
                "assembling the model from features the trainer itself extracts never panics, for every configuration incl. differing "
                "window sizes (C09_assemble_total); every stored n-gram vector has exactly 2*window-l+1 entries of its OWN window, "
                "dictionary vectors length+1 entries, windows/bias/dictionary words as configured (C09_vector_shape); and the main "
                "theorem C09_scores: the assembled model's specified score of every boundary of every text equals the quantised bias "
                "plus the quantised weight of each feature the trainer extracts for that boundary, with multiplicity — character and "
                "type n-grams within their own window, left/inside/right dictionary features by length bucket. Composed with C01 "
                "(predictor = specification) this is the end-to-end statement for windows >= 1. Tied to /repo through hook H1: the Lean "
                "model must assemble the byte-identical model from the recorded quantised weights, and the harness checks the real "
                "predictor's scores against bias + sum of the recorded weights over its own feature enumeration. "
                "The order in which Trainer::train walks its feature HashMap is unobservable: C09_assemble_perm_ok / _eq / _panic_iff (every permutation of the distinct features assembles the same model); "
                "oracle c10bias-style behavioural cases are C10's.",
        "design_ref": "DESIGN.md §6 C09",
        "note": _common_note + "liblinear and the f64 quantisation are outside the model (hook trace). For window size 0 the composition with C01 is not a "
                "theorem (C01 assumes windows >= 1); that case is covered by the oracle on trained models.",
        "technique": "Lean 4 proof (fold invariant over sorted association lists; exchange of sums between stored vectors and extracted features) + hook-based differential correspondence",
    },
    "C11": {
        "text": "Lean theorems carry the bookkeeping around the learner: assembling the boundary model never panics on features the "
                "trainer itself extracts (C09_assemble_total) and assembling a tag model never panics when the recorded classes lie "
                "inside its trainable classes (C11_tag_assemble_total); the assembled boundary model is well-formed whenever both "
                "windows are >= 1 (C11_assembled_wf) and the assembled tag models are well-formed (C11_tags_wf, C11_tags_weights_ne); "
                "every well-formed model is accepted by the predictor with and without tag prediction in every build configuration "
                "(C11_predictor_accepts) and then predicts and tags ANY non-empty text without panicking, with or without score "
                "storing (C11_predict_total, from C01_scores and C06). liblinear itself (error returns, label order, NaN), the f64 "
                "quantisation and window size 0 are the runtime remainder, covered by the sweep: all 8 solvers x window/n-gram sizes "
                "0..4 x six corpus kinds (empty, single class, untagged, partially tagged, partially annotated, ambiguous tags), each "
                "followed by write -> read -> Predictor::new(., true/false) -> predict + fill_tags and an i16-range check of every weight. "
                "The loading stage of the `train` tool (anchored file train/src/main.rs; VModel/TrainCli.lean, tied through hook H5) is total: "
                "whatever the files contain it ends with the trainer's arguments or an error (C11_train_tool_loading_total), and the word "
                "dictionary it builds is strictly sorted, free of empty and repeated words and exactly the token surfaces of the normalised "
                "dictionary lines, so Trainer::new always accepts it (C11_train_tool_dictionary). The usability theorems also hold for window "
                "size 0 (WFModel0): C11_assembled_wf0, C11_assembled_dropW0, C11_predictor_accepts_window0, C11_predict_total_window0, "
                "C11_trained_predictor_scores_window0 (the end-to-end statement for all window sizes 0..255). "
                "The f64 quantisation of Trainer::train is modelled exactly (VModel/Quantize.lean: IEEE-754 binary64 division with integer arithmetic, to_int_unchecked as Res.ub): for finite coefficients never undefined behaviour "
                "(C11_quantise_no_ub); every quantised value within [-32767, 32767] whenever the largest absolute coefficient is at least 2^-1045 (C11_quantise_range, C11_quantise_total; exact threshold in _sharp, with the "
                "decide-checked failure below it); the largest coefficient maps to +-32767 or +-32766; monotone and odd. Hook H6 records the raw bit patterns of every training run, which the driver re-quantises (Qok).",
        "design_ref": "DESIGN.md §6 C11",
        "note": _common_note + "PARTIAL by nature: 'training never panics' for the learner call itself is established by the sweep (exploration), not by a "
                "theorem; the theorems cover everything before and after the learner.",
        "technique": "Lean 4 proof (totality and well-formedness of the assembly; usability of every well-formed model) + solver/configuration sweep on the real trainer",
    },
    "C18": {
        "text": "In the model every get_unchecked*/unwrap_unchecked/unchecked range is a CHECKED access yielding ub, so the property is "
                "'no run produces ub'. C18_history_safe: for predictors built through Predictor::new from well-formed models (every "
                "build configuration), EVERY valid history of public-API calls on one sentence object — updates incl. rejected input, "
                "predict with any predictor, fill_tags, reset_tags, boundary/tag writes, all four filters (grapheme filter for every "
                "valid segmentation) — runs to completion: no unchecked index out of range, no panic, and the sentence stays "
                "consistent (induction over histories with an invariant that remembers which prediction the automaton states belong to). "
                "Byte-level preconditions the character-level model abstracts are separate theorems on the model's UTF-8 encoder: every "
                "byte offset at which a pattern's bytes end inside the text's bytes is a character boundary and the pattern occurs "
                "there as characters (C18_match_end_boundary, C18_char_match_is_byte_match — UTF-8 self-synchronisation), and the "
                "buffer write_tokenized_text assembles from raw bytes equals the UTF-8 of the escaped characters, hence is valid "
                "(C18_escape_bytes, C18_escape_valid_utf8). C18_history_safe_window0 is the same for models with a window size of 0 (EnvWF0; the old theorem is its corollary). Tied to /repo by running the union of the C08/C06/C14/C15 cases in a build "
                "with debug assertions and overflow checks (every debug_assert! guarding an unchecked access fires as a panic).",
        "design_ref": "DESIGN.md §6 C18",
        "note": _common_note + "PARTIAL: memory safety inside daachorse/hashbrown and of deserialize_unchecked (beyond the value-level round trip of C14) is "
                "outside the model; Miri/ASan runs were not built.",
        "technique": "Lean 4 proof (history invariant by induction; UTF-8 self-synchronisation) + debug-assertion differential run",
    },
    "C20": {
        "text": "Lean theorems on the mirrored main loop of predict (reused sentence objects s and s_orig kept): whatever state the loop "
                "is in, the bytes written for a line are exactly the specification block of that line — the library pipeline on a FRESH "
                "sentence, tokenised line from the ORIGINAL characters, newline, optional score block, optional tag-score block, an "
                "empty line for an empty or rejected input (C20_line_eq_library); the whole output is the concatenation of one block "
                "per input line in both modes (C20_output_eq_blocks); parsing the tokenised line gives back the un-normalised input "
                "line (C20_surfaces_concat, via C03_roundtrip); and once the predictor is built no input stream and no flag combination "
                "makes the tool panic (C20_no_crash, all four flags incl. tag scores). evaluate is modelled up to its integer counts, and the "
                "counting loops are characterised without reference to a loop: TP/TN/FP/FN as position counts (C20_eval_char_counts); "
                "n_cor / n_sys / n_ref of --metric word = common words with equal tag rows / system words / reference words for every "
                "list of lines (C20_eval_word_counts), whose hypotheses every counted line meets (C20_eval_line_wf). "
                "Tied to /repo by running the REAL predict and evaluate binaries (built from the working tree) on generated streams x "
                "all 16 / 8 flag combinations x wsconst sets, comparing stdout and exit status with the model and with a per-line "
                "library pipeline in the harness; evaluate's P/R/F1 are compared as text against the same f64 expressions. "
                "The floats of evaluate are modelled exactly (VModel/F64Arith.lean: correctly rounded conversion, product, sum and quotient on the binary64 model): C20_eval_metrics_nan, _range, _exact_ratio, "
                "C20_eval_f1_symmetric, C20_eval_f1_between (with a proved counterexample to min <= F1 <= max), and compared bit for bit with what the real tool prints on every CE case. "
                "The decimal TEXT of the three numbers is inside the model too (VModel/F64Fmt.lean: Rust's shortest round-trip Display for f64 as an exact search over the rounding interval, "
                "the complete report of the tool): the printed digits read back to the printed double (C20_eval_display_roundtrip), a decimal reads back as a double exactly when it lies in its "
                "rounding interval (C20_eval_display_interval_iff), different doubles print different strings (C20_eval_display_text_injective), no shorter digit string reads back to the same double "
                "if the search ended within its fuel (C20_eval_display_shortest_partial; '17 digits always suffice' is the missing lemma), the text of a value in [0,1] is 0, 1 or 0.d…d (C20_eval_display_shape, "
                "C20_eval_report_shape); the tool's i32 counters cannot overflow below 2^31 evaluated characters (C20_eval_char_counts_bounded, C20_eval_word_counts_bounded, C20_eval_counts_i32). "
                "Tie: every CE case compares the printed text with the model's, and family FD runs the model's Display against the standard library on about 11 000 bit patterns per run.",
        "design_ref": "DESIGN.md §6 C20",
        "note": _common_note + "PARTIAL: clap, process exit codes, tty flushing and the floats of evaluate are not modelled; C20_no_crash covers "
                "character-type --wsconst values (the G filter needs cluster data; it is covered by the runs).",
        "technique": "Lean 4 proof (refinement of the reused-object loop to a per-line specification) + differential runs of the real binaries",
    },
    "C17": {
        "text": "Lean theorems on a byte-level model of the KyTea reader, the trie walk and the converter, with an encoder for abstract "
                "descriptions: reading an encoded file gives back the description and the rest (C17_read_encode); the trie walk "
                "(explicit stack, mirrored) returns exactly the items the state table encodes, for ARBITRARY tables on which it "
                "returns (C17_dump, worklist invariant) and within n_states steps on tries (C17_fuel_enough, C17_trie_items); the "
                "conversion of a well-formed file equals the expected model — n-grams with vectors cut to 2w-l+1, type letters mapped "
                "to codes, the 0x04 n-grams skipped, bias, windows, dictionary weights summed over the member dictionaries by length "
                "bucket (C17_convert at byte level, C17_convert_any for any parsed file incl. real ones, explicit membership "
                "statements C17_header/C17_char_ngrams/C17_type_ngrams/C17_dict_words), hence the same predictor as the expected "
                "model and, with C01, the same segmentation (C17_same_predictor); every proper prefix of a well-formed file is "
                "rejected with an error, never a panic (C17_truncated, C17_truncated_convert). Tied to /repo by encoding abstract "
                "descriptions with an independent Rust encoder and the Lean encoder (bytes compared), running the REAL reader and "
                "TryFrom on whole files and truncation points, comparing the converted Model::to_vec with the model's and with the "
                "harness's own expectation; resources/kytea-model.bin included.",
        "design_ref": "DESIGN.md §6 C17",
        "note": _common_note + "WFKytea additionally requires non-empty n-gram dictionaries and a file shorter than 2^32 bytes. Files outside WFKytea (empty "
                "n-gram dictionary, n-gram of length 2w+1, n_dicts > 8, corrupt counts) are outside the claim; see DESIGN.md 7.3.",
        "technique": "Lean 4 proof (worklist invariant for the trie walk; pointwise strict decoders for the record grammar; conversion algebra) + differential correspondence on encoded files",
    },
}
