#!/usr/bin/env python3
"""Mechanical mutation run (a diagnostic, not a check):  python3 lib/mutate.py --verif DIR --repo DIR [--n 100] [--seed 1]

Works on a SCRATCH pair: a copy of /verif and a git worktree of /repo (paths inside the copy rewritten by lib/mutate_setup.sh),
never on /repo or /verif themselves. For each sampled one-line mutant of the library/CLI sources (relational operator swaps,
off-by-one constants, && <-> ||, true <-> false, deleted `.clear()`/`.push()`-style statements, sign flips):
  1. `cargo build --release --offline` must succeed (otherwise: stillborn),
  2. the unedited suite `cargo test --workspace --no-fail-fast --offline` must still pass (otherwise: killed by the tests),
  3. all 20 quick checks run; the mutant is `detected` when one of them exits 1 with a VIOLATION line.
Results are appended to <verif>/work/mutants.jsonl; survivors need a human look (equivalent mutant, or a gap)."""
import json, os, random, re, subprocess, sys, time


def arg(name, default=None):
    return sys.argv[sys.argv.index(name) + 1] if name in sys.argv else default


VERIF, REPO = arg("--verif"), arg("--repo")
N, SEED = int(arg("--n", "100")), int(arg("--seed", "1"))
assert VERIF and REPO and not os.path.samefile(REPO, "/repo") and not os.path.samefile(VERIF, "/verif")
ENV = dict(os.environ, CARGO_NET_OFFLINE="true")
FILES = ["vaporetto/src/sentence.rs", "vaporetto/src/predictor.rs", "vaporetto/src/char_scorer.rs", "vaporetto/src/type_scorer.rs",
         "vaporetto/src/char_scorer/boundary_scorer.rs", "vaporetto/src/char_scorer/boundary_tag_scorer.rs",
         "vaporetto/src/type_scorer/boundary_scorer.rs", "vaporetto/src/type_scorer/boundary_scorer_cache.rs",
         "vaporetto/src/type_scorer/boundary_tag_scorer.rs", "vaporetto/src/model.rs", "vaporetto/src/dict_model.rs",
         "vaporetto/src/utils.rs", "vaporetto/src/trainer.rs", "vaporetto/src/tag_trainer.rs", "vaporetto/src/kytea_model.rs",
         "vaporetto_rules/src/sentence_filters/concat_grapheme_clusters.rs", "vaporetto_rules/src/sentence_filters/kytea_wsconst.rs",
         "vaporetto_rules/src/sentence_filters/pattern_match_tagger.rs", "vaporetto_rules/src/sentence_filters/split_linebreaks.rs",
         "vaporetto_rules/src/string_filters/kytea_fullwidth.rs", "vaporetto_tantivy/src/lib.rs",
         "predict/src/main.rs", "evaluate/src/main.rs", "manipulate_model/src/main.rs", "train/src/main.rs", "convert_kytea_model/src/main.rs"]
OPS = [(r"<=", "<"), (r"(?<![<>=!-])<(?![<=])", "<="), (r">=", ">"), (r"(?<![<>=!-])>(?![>=])", ">="), (r"==", "!="), (r"!=", "=="),
       (r"\+ 1\b", "+ 0"), (r"\+ 1\b", "+ 2"), (r"- 1\b", "- 0"), (r"&&", "||"), (r"\|\|", "&&"), (r"\btrue\b", "false"), (r"\bfalse\b", "true"),
       (r"\+=", "-="), (r"\b0\b", "1"), (r"\b1\b", "0"), ("DELETE", ""),
       # second batch (appended, so that the indices recorded by the first run stay valid)
       (r"\.min\(", ".max("), (r"\.max\(", ".min("), (r"\.\.=", ".."), (r"if !", "if "), (r"\* 2\b", "* 1"), (r"\.skip\(", ".take("), (r"\.rev\(\)", "")]


def sh(cmd, cwd, timeout=3600):
    return subprocess.run(cmd, cwd=cwd, shell=isinstance(cmd, str), capture_output=True, text=True, env=ENV, timeout=timeout)


def candidates():
    out = []
    for f in FILES:
        p = os.path.join(REPO, f)
        if not os.path.exists(p):
            continue
        lines = open(p).read().split("\n")
        for i, l in enumerate(lines):
            if "#[cfg(test)]" in l:
                break
            t = l.strip()
            if not t or t.startswith(("//", "#[", "#![", "use ", "pub use", "mod ", "pub mod", "debug_assert", "eprint", "///")) or "verif" in t or "->" in t and "fn " in t:
                continue
            code = l.split("//")[0]
            for k, (pat, rep) in enumerate(OPS):
                if pat == "DELETE":
                    if re.search(r"\.(clear|push|push_str|take|resize|truncate|extend|insert|sort\w*|dedup\w*|reverse|flush)\(.*\);\s*$", code) and not code.strip().startswith(("let ", "return")):
                        out.append((f, i, k, 0))
                    continue
                for j, m in enumerate(re.finditer(pat, code)):
                    # skip generics / lifetimes / shifts for the angle-bracket operators
                    if rep in ("<=", ">=") and re.search(r"(<[A-Za-z_&'\[(]|::<|>\s*[,)({;]|>$|->|=>|<\s*'|Vec<|Option<|impl<|&>)", code):
                        continue
                    out.append((f, i, k, j))
    return out


def apply(f, i, k, j):
    p = os.path.join(REPO, f)
    lines = open(p).read().split("\n")
    pat, rep = OPS[k]
    old = lines[i]
    if pat == "DELETE":
        new = re.sub(r"\S.*$", "{ }", old, count=1) if False else old[:len(old) - len(old.lstrip())] + "// (statement deleted)"
    else:
        code, sep, com = old.partition("//")
        ms = list(re.finditer(pat, code))
        m = ms[j]
        new = code[:m.start()] + rep + code[m.end():] + sep + com
    lines[i] = new
    open(p, "w").write("\n".join(lines))
    return old.strip(), new.strip()


def main():
    rnd = random.Random(SEED)
    cands = candidates()
    rnd.shuffle(cands)
    log = os.path.join(VERIF, "work", "mutants.jsonl")
    os.makedirs(os.path.dirname(log), exist_ok=True)
    done = set()
    if os.path.exists(log):
        for l in open(log):
            r = json.loads(l)
            done.add((r["file"], r["line"], r["op"], r["occ"]))
    n = 0
    for (f, i, k, j) in cands:
        if n >= N:
            break
        if (f, i + 1, k, j) in done:
            continue
        assert sh("git status --porcelain", REPO).stdout.strip() == "", "scratch repo not clean"
        t0 = time.time()
        old, new = apply(f, i, k, j)
        rec = {"file": f, "line": i + 1, "op": k, "occ": j, "old": old, "new": new}
        try:
            b = sh("cargo build --release --offline 2>&1 | tail -3", REPO)
            if "error" in b.stdout or "could not compile" in b.stdout:
                rec["status"] = "stillborn"
                continue
            t = sh("timeout 900 cargo test --workspace --no-fail-fast --offline 2>&1 | grep -E '^test result|FAILED|failed|panicked|timed out' | head -20", REPO)
            if "FAILED" in t.stdout or "test result: ok" not in t.stdout:
                rec["status"] = "killed-by-tests"
                continue
            rec["status"] = "survived"
            hits = {}
            # the checks whose property is anchored in the mutated file first; one alarm is enough
            anchored = [json.loads(l) for l in open(os.path.join(VERIF, "properties.jsonl"))]
            first = [p["id"] for p in anchored if f in p["anchors"].get("files", [])]
            order = first + [f"C{c:02d}" for c in range(1, 21) if f"C{c:02d}" not in first]
            for pid in order:
                if hits:
                    break
                try:
                    r = sh([os.path.join(VERIF, "check"), pid, "--tier", "quick"], VERIF, timeout=1500)
                except subprocess.TimeoutExpired:
                    hits[pid] = ["timeout"]
                    continue
                v = [l for l in r.stdout.splitlines() if l.startswith("VIOLATION")]
                if r.returncode != 0:
                    hits[pid] = v[:2] or [f"exit {r.returncode}: " + r.stderr[-200:]]
            rec["checks"] = hits
            if hits:
                rec["status"] = "detected"
            n += 1
        finally:
            sh("git checkout -- .", REPO)
            rec["seconds"] = round(time.time() - t0)
            with open(log, "a") as fh:
                fh.write(json.dumps(rec, ensure_ascii=False) + "\n")
            print(rec["status"], f, i + 1, "|", old[:70], "=>", new[:70], "|", list(rec.get("checks", {}).keys()), flush=True)


if __name__ == "__main__":
    main()
