"""per-property registry used by ./check"""


def _ok_obs(line, out):
    # non-trivial: the history produced at least one successful operation and an observation
    return "ok" in out and ";" in out


PROPS = {
    "C02": {
        "families": ["C02"],
        "nontrivial": _ok_obs,
        "rule": "cases = corpus + every label vector in {N,W,U}^(n-1) for n<=8 (quick) / n<=11 (thorough) on a multi-byte text "
                "+ random texts (<=40 chars, escape-worthy and 1-4-byte characters) with random labels and tags; "
                "non-trivial = distinct case line whose history has a successful op and an observation",
        "scopes": {"quick": "all label vectors for n<=8", "thorough": "all label vectors for n<=11"},
        "assumptions": ["token surfaces are compared as character slices (char_to_str_pos is a function of the text)"],
    },
    "C03": {
        "families": ["C03"],
        "nontrivial": _ok_obs,
        "rule": "round trip: random fully segmented sentences (<=12 chars, 35% format-special characters) with 0-3 tags per token; "
                "idempotence: every string of length <=4 (quick) / <=6 (thorough) over {a,あ,space,/,\\,NUL,𠮷} plus random strings; "
                "non-trivial = distinct case whose parser/constructor succeeded",
        "scopes": {"quick": "all strings len<=4 over 7 symbols", "thorough": "all strings len<=6 over 7 symbols"},
        "assumptions": [],
    },
    "C04": {
        "families": ["C04"],
        "nontrivial": _ok_obs,
        "rule": "round trip: random sentences (<=10 chars) x labels in {N,W,U} x 0-3 tags per character, tags drawn with 60% "
                "delimiter characters; parser correspondence on every string len<=4 (quick) / <=5 (thorough) over 8 symbols; "
                "non-trivial = distinct case whose constructor succeeded",
        "scopes": {"quick": "all strings len<=4 over 8 symbols (parser)", "thorough": "all strings len<=5 over 8 symbols"},
        "assumptions": [],
    },
    "C05": {
        "families": ["C05"],
        "nontrivial": _ok_obs,
        "rule": "every string len<=4 (quick) / <=5 (thorough) over {a,あ,space,/,\\,NUL,|} through the 3 constructors and the 3 updates "
                "of a used sentence; every op sequence len<=3 (quick) / <=4 over a 9-op alphabet; random histories len<=6 mixing "
                "malformed and well-formed inputs; non-trivial = distinct history with a successful op",
        "scopes": {"quick": "strings len<=4 x 6 entry points; op sequences len<=3", "thorough": "strings len<=5; op sequences len<=4"},
        "assumptions": [],
    },
}

SETUP_EXTRA = []
