"""per-property registry used by ./check"""
import extras


def _ok_obs(line, out):
    # non-trivial: the history produced at least one successful operation and an observation
    return "ok" in out and ";" in out


PROPS = {
    "C02": {
        "families": ["C02"],
        "nontrivial": _ok_obs,
        "rule": "cases = corpus + every label vector in {N,W,U}^(n-1) for n<=8 (quick) / n<=11 (thorough) on a multi-byte text "
                "+ random texts (<=40 chars, escape-worthy and 1-4-byte characters) with random labels and tags; "
                "PLUS scale cases at sizes around the powers of two (15..300 characters, 255/256/257/300 tags or candidates, 4 KiB strings, 2^16 counts; cases too large for the Lean model run as oracle-only BIG cases) and special scalar values (BOM, joiners, controls, plane edges): see DESIGN.md section 11; "
            "non-trivial = distinct case line whose history has a successful op and an observation",
        "scopes": {"quick": "all label vectors for n<=8", "thorough": "all label vectors for n<=11"},
        "assumptions": ["token surfaces are compared as character slices (char_to_str_pos is a function of the text)"],
    },
    "C03": {
        "families": ["C03"],
        "nontrivial": _ok_obs,
        "rule": "ALL 1,112,063 non-NUL Unicode scalar values, 64 per case, each as a one-character token tagged with itself: written, re-parsed, "
                "compared (escaping of every character in surface and tag position); "
                "round trip: random fully segmented sentences (<=12 chars, 35% format-special characters) with 0-3 tags per token; "
                "idempotence: every string of length <=4 (quick) / <=6 (thorough) over {a,あ,space,/,\\,NUL,𠮷} plus random strings; "
                "non-trivial = distinct case whose parser/constructor succeeded",
        "scopes": {"quick": "all Unicode scalar values as token and tag; all strings len<=4 over 7 symbols", "thorough": "all Unicode scalar values; all strings len<=6 over 7 symbols"},
        "assumptions": [],
    },
    "C04": {
        "families": ["C04"],
        "nontrivial": _ok_obs,
        "rule": "ALL 1,112,063 non-NUL Unicode scalar values, 64 per case, each as a one-character token tagged with itself: written in the "
                "partial-annotation format, re-parsed, compared; "
                "round trip: random sentences (<=10 chars) x labels in {N,W,U} x 0-3 tags per character, tags drawn with 60% "
                "delimiter characters; parser correspondence on every string len<=4 (quick) / <=5 (thorough) over 8 symbols; "
                "non-trivial = distinct case whose constructor succeeded",
        "scopes": {"quick": "all Unicode scalar values as token and tag; all strings len<=4 over 8 symbols (parser)", "thorough": "all Unicode scalar values; all strings len<=5 over 8 symbols"},
        "assumptions": [],
    },
    "C05": {
        "families": ["C05"],
        "nontrivial": _ok_obs,
        "rule": "every string len<=4 (quick) / <=5 (thorough) over {a,あ,space,/,\\,NUL,|} through the 3 constructors and the 3 updates "
                "of a used sentence; every op sequence len<=3 (quick) / <=4 over a 9-op alphabet; random histories len<=6 mixing "
                "malformed and well-formed inputs; PLUS scale cases at sizes around the powers of two (15..300 characters, 255/256/257/300 tags or candidates, 4 KiB strings, 2^16 counts; cases too large for the Lean model run as oracle-only BIG cases) and special scalar values (BOM, joiners, controls, plane edges): see DESIGN.md section 11; "
            "non-trivial = distinct history with a successful op",
        "scopes": {"quick": "strings len<=4 x 6 entry points; op sequences len<=3", "thorough": "strings len<=5; op sequences len<=4"},
        "assumptions": [],
    },
}

def _pred_ok(line, out):
    return out.startswith("ok") and ";" in out


PROPS["C01"] = {
    "families": ["C01", "AC"],
    "nontrivial": _pred_ok,
    "rule": "exhaustive small scope (W in {1,2}; <=2 char n-grams of length 1..2 over {a,1} with same-shape type n-grams; optional "
            "word; weights cycling through {-1,0,2}; all texts len<=4 (quick) / <=5 over {a,1}) + random well-formed models "
            "(windows {1,2,3,4,5,8,9,40}: cache/plain, fixed/variable layouts; suffix-related n-grams; words equal to n-grams; "
            "words <=12 chars; i16-extreme weights) x texts <=30 chars built from pattern occurrences, some with earlier labels; "
            "PLUS scale cases at sizes around the powers of two (15..300 characters, 255/256/257/300 tags or candidates, 4 KiB strings, 2^16 counts; cases too large for the Lean model run as oracle-only BIG cases) and special scalar values (BOM, joiners, controls, plane edges): see DESIGN.md section 11; "
            "non-trivial = distinct case whose predictor was built and prediction returned",
    "scopes": {"quick": "176 small models x 30 texts", "thorough": "176 small models x 62 texts"},
    "assumptions": ["no i32 overflow in score accumulation (weights are in the i16 range; sums stay far below 2^31 on the generated sizes)",
                    "daachorse automata behave as their documented contract (matchesNoSuffix / matchesAll); the contract itself is run against the "
                    "dependency on every run (family AC: char-wise and byte-wise automata, suffix chains, refused constructions, serialise -> deserialise)"],
}
PROPS["C06"] = {
    "families": ["C06"],
    "nontrivial": _pred_ok,
    "rule": "random well-formed models with 0-4 tag models (0-3 categories of 0/1/2/3/9 candidates, char and type tag n-grams at "
            "rel 0..min(W,3), small weights so ties occur, 10% with empty boundary char or type model) x texts <=14 chars biased "
            "to contain the tokens, boundaries from prediction or edited afterwards (incl. unknown), with and without score "
            "storing; PLUS scale cases at sizes around the powers of two (15..300 characters, 255/256/257/300 tags or candidates, 4 KiB strings, 2^16 counts; cases too large for the Lean model run as oracle-only BIG cases) and special scalar values (BOM, joiners, controls, plane edges): see DESIGN.md section 11; "
            "non-trivial = distinct case whose prediction and fill_tags returned",
    "scopes": {},
    "assumptions": ["daachorse automata behave as their documented contract"],
}

PROPS["C08"] = {
    "families": ["C08"],
    "nontrivial": _pred_ok,
    "rule": "random histories (<=8 quick / <=12 thorough ops over update_raw/tokenized/partial incl. failing inputs, predict with 4 "
            "predictors (tags+scores, other model without tags, tags without scores, tag prediction on a tagless model), "
            "fill_tags where documented, reset_tags, boundary/tag writes, observations) simulated on the real code while "
            "generating, each followed by update_raw(x); predict; [fill_tags]; observe and compared with a fresh sentence; "
            "PLUS scale cases at sizes around the powers of two (15..300 characters, 255/256/257/300 tags or candidates, 4 KiB strings, 2^16 counts; cases too large for the Lean model run as oracle-only BIG cases) and special scalar values (BOM, joiners, controls, plane edges): see DESIGN.md section 11; "
            "non-trivial = distinct history whose probe returned",
    "scopes": {},
    "extras": [extras.threads_extra, extras.send_sync_scan],
    "assumptions": ["thread clause: Predictor is Send+Sync without unsafe impls or interior mutability (checked by rustc and a source scan); "
                    "interleavings below call granularity are not modelled"],
}

PROPS["C07"] = {
    "families": ["C07"],
    "nontrivial": lambda line, out: ("ok:" in out) or (not out.startswith(("bad", "err"))),
    "rule": "resources/model.bin and 41 (quick) / 1501 (thorough) generated models (empty tables, 4-byte strings, extreme i32, "
            "255 windows, tag models): bytes of to_vec compared byte for byte; read_slice and read on EVERY proper prefix "
            "(incl. shorter than the header), with trailing bytes, with every header byte mutated; readers and writers failing "
            "at sampled (quick) / all (thorough) byte positions; the same files are read back and re-serialised in builds of 7 (quick) / 32 (thorough) "
            "cargo-feature subsets of vaporetto (no_std/alloc, without tag-prediction, ...) and compared with the model's bytes; PLUS scale cases at sizes around the powers of two (15..300 characters, 255/256/257/300 tags or candidates, 4 KiB strings, 2^16 counts; cases too large for the Lean model run as oracle-only BIG cases) and special scalar values (BOM, joiners, controls, plane edges): see DESIGN.md section 11; "
            "non-trivial = distinct case in which some read/write succeeded or bytes were produced",
    "scopes": {"quick": "every truncation point of every generated file", "thorough": "every truncation point and every fault position"},
    "extras": [extras.feature_models],
    "assumptions": ["bincode's derive order and primitive encodings are as modelled (the model's bytes are compared with the real ones)"],
}

PROPS["C13"] = {
    "families": [],
    "nontrivial": lambda line, out: True,
    "rule": "the C13 case file (300 quick / 3000 thorough random well-formed models, half with tag models, all window classes, x 4 texts) "
            "is run through one binary per cargo-feature subset of {std, cache-type-score, fix-weight-length, tag-prediction, "
            "charwise-pma} (quick: default, none, default minus each = 7 builds; thorough: all 32, + portable-simd on nightly if it "
            "builds); every output is compared with the Lean model under the matching Cfg and with the default build",
    "scopes": {"quick": "7 feature builds", "thorough": "32 feature builds (+ portable-simd)"},
    "extras": [extras.feature_matrix],
    "assumptions": ["charwise-pma, std and portable-simd are identified in the model (same function); they are covered by the feature-matrix run only"],
}

PROPS["C15"] = {
    "families": ["C15"],
    "nontrivial": _ok_obs,
    "rule": "every sentence of <=3 (quick) / <=4 (thorough) characters over {a, CR, LF, e, U+0301, regional indicator} x every label vector "
            "in {N,W,U}^(n-1), and random texts of <=8 units drawn from ZWJ sequences, flags, combining marks, Hangul jamo, CR/LF/CRLF, "
            "prepend/spacing marks and all six character types with random labels and tags; each through all six character-type "
            "filters, the line-break filter, the grapheme filter (cluster lengths supplied by the real unicode-segmentation crate) and "
            "the pattern tagger with rules for substrings of the text (short and absent entries); PLUS scale cases at sizes around the powers of two (15..300 characters, 255/256/257/300 tags or candidates, 4 KiB strings, 2^16 counts; cases too large for the Lean model run as oracle-only BIG cases) and special scalar values (BOM, joiners, controls, plane edges): see DESIGN.md section 11; "
            "non-trivial = distinct case whose filter ran",
    "scopes": {"quick": "all sentences len<=3 over 6 symbols x all label vectors x 9 filters", "thorough": "len<=4"},
    "assumptions": ["the grapheme segmentation is an input of the model (any list of cluster lengths >=1 summing to the text length); the "
                    "real crate's segmentation is supplied by the harness and checked against the crate on every case"],
}

PROPS["C14"] = {
    "families": ["C14"],
    "nontrivial": lambda line, out: out.startswith("ok"),
    "rule": "300 (quick) / 2000 (thorough) random well-formed models (windows 1..9: cached, plain and tagged scorers; weight vectors of "
            "8 vs 9 entries with inner and trailing zeros; 0-4 tag models) as predictor pairs (original, serialize->deserialize with "
            "0-5 trailing bytes) observed on 3 texts each incl. tags and candidate scores; plus the outer record of the REAL "
            "serialised bytes decoded and re-encoded by the Lean envelope codec; PLUS scale cases at sizes around the powers of two (15..300 characters, 255/256/257/300 tags or candidates, 4 KiB strings, 2^16 counts; cases too large for the Lean model run as oracle-only BIG cases) and special scalar values (BOM, joiners, controls, plane edges): see DESIGN.md section 11; "
            "non-trivial = distinct case whose predictors were built",
    "scopes": {},
    "extras": [extras.example_embedded],
    "assumptions": ["daachorse serialize/deserialize_unchecked are inverse on self-produced bytes (opaque blob in the model)"],
}
PROPS["C16"] = {
    "families": ["C16"],
    "bin": extras.TANTIVY_BIN,
    "bin_build": extras.build_tantivy,
    "nontrivial": lambda line, out: out.startswith("ok ") or (line.startswith("N ") and len(out) > 1),
    "rule": "normaliser: ALL 1,112,064 Unicode scalar values (in 272 chunks) through the real filter and the regenerated table, with "
            "character-count, idempotence and character-wise oracles; every ordered pair over the characters the filter touches, the half-width "
            "katakana block, sound marks and combining marks, plus 2000 (quick) / 20000 (thorough) random strings over them; the live table is "
            "compared with the pinned table (corpus/C16/fullwidth.pinned); token stream: 120 (quick) / 3000 (thorough) random models x 6-8 texts (pattern "
            "texts and units such as half-width kana, CR/LF/CRLF, flags, ZWJ, combining marks, full-width variants; incl. the empty "
            "text and a NUL text) x wsconst strings over {D,R,H,T,K,O,G} (all strings of length <=2 on one model, random up to "
            "length 4); non-trivial = distinct case that produced tokens / a normalised string",
    "scopes": {"quick": "all Unicode scalar values; all wsconst strings len<=2 on one model", "thorough": "same"},
    "extras": [extras.normaliser_table, extras.example_wasm],
    "assumptions": ["tantivy's TextAnalyzer plumbing is not modelled (the harness drives Tokenizer::token_stream directly)",
                    "the grapheme segmentation of the normalised text is an input of the model"],
}

_train_rule = ("random training runs: window and n-gram sizes in 0..4 (independently, incl. n > window and differing windows; the "
               "configurations that failed on the pinned tree first), dictionaries with length buckets 1..4, tag dictionaries, "
               "corpora of 3-8 (quick) / 3-12 (thorough) tokenized and partially annotated sentences over a 7-character alphabet, "
               "4 evaluation texts; the learner's quantised output is read from the hook trace of the same run and handed to the "
               "Lean model, which must assemble the byte-identical model; non-trivial = distinct case whose training returned a model")
for _pid, _extra in (("C09", ""), ("C10", ""), ("C11", " — corpus kinds cycle through {empty, single class, untagged, partially tagged, partially annotated, ambiguous tags} and all 8 solvers"), ("C12", " — tagged corpora with ambiguity, absent tags, dictionary-only tokens")):
    PROPS[_pid] = {
        "families": [_pid] + (["TL"] if _pid in ("C10", "C11", "C12") else []),
        **({"bin_build": extras.build_train_hooks} if _pid == "C10" else {}),
        **({"bin_build": extras.build_repo_bins_and_hooks, "extras": [extras.c11_cli_train]} if _pid == "C11" else {}),
        **({"bin_build": extras.build_repo_bins_and_hooks, "extras": [extras.c12_cli_train]} if _pid == "C12" else {}),
        "nontrivial": lambda line, out: out.startswith("X"),
        "rule": _train_rule + _extra,
        "scopes": {},
        "assumptions": ["liblinear is an arbitrary function from the training problem to coefficients; f64 quantisation is outside the model "
                        "(the quantised integers are read through the verif-hooks trace)"],
    }

PROPS["C19"] = {
    "families": ["C19"],
    "bin_build": extras.build_repo_bins,
    "nontrivial": lambda line, out: not out.startswith(("err", "bad")),
    "rule": "250 (quick) / 5000 (thorough) random models with CSV-hostile words (commas, quotes, spaces, newlines, CR, multi-byte), "
            "32-bit and negative weights and arbitrary comments; replace_dictionary with kept / edited / new / malformed records and a "
            "score-delta oracle on a text; the weights column as written by the REAL manipulate_model --dump-dict compared with the "
            "model's joinWeights and parsed back; hand-written malformed weight strings; plus the CLI dump->replace round trip on "
            "40 (quick) / 400 (thorough) models; PLUS scale cases at sizes around the powers of two (15..300 characters, 255/256/257/300 tags or candidates, 4 KiB strings, 2^16 counts; cases too large for the Lean model run as oracle-only BIG cases) and special scalar values (BOM, joiners, controls, plane edges): see DESIGN.md section 11; "
            "non-trivial = distinct case that produced a model / a parsed list",
    "scopes": {},
    "extras": [extras.c19_cli_roundtrip],
    "assumptions": ["csv + serde round-trip three-field records unchanged (external contract, exercised end-to-end by the CLI step)",
                    "zstd round-trips the model file"],
}

PROPS["C20"] = {
    "families": ["C20", "FD"],
    "bin_build": extras.build_repo_bins,
    "nontrivial": lambda line, out: out.startswith("0:") and len(out) > 3,
    "rule": "16 (quick) / 400 (thorough) random models (3/4 with tag models); for predict: input streams of 1-5 lines (empty lines, NUL, "
            "spaces, slashes, backslashes, half-width and combining characters, flags, CRLF line ends, missing final newline) x ALL 16 "
            "combinations of {--no-norm, --predict-tags, --scores, --tag-scores} x wsconst sets; for evaluate: tokenized reference lines "
            "(tags, escapes, empty lines) x all 8 combinations of {--no-norm, --predict-tags, --metric word|char} x wsconst sets; the REAL "
            "binaries built from the working tree are run as processes; PLUS scale cases at sizes around the powers of two (15..300 characters, 255/256/257/300 tags or candidates, 4 KiB strings, 2^16 counts; cases too large for the Lean model run as oracle-only BIG cases) and special scalar values (BOM, joiners, controls, plane edges): see DESIGN.md section 11; "
            "non-trivial = distinct case with exit code 0 and output",
    "scopes": {"quick": "all 16 predict flag combinations and all 8 evaluate flag combinations on every model", "thorough": "same"},
    "assumptions": ["clap's flag parsing, process exit codes and stdout buffering are not modelled", "floats of evaluate: the tool's three numbers are compared as bit patterns with the "
                    "model's exact binary64 arithmetic and as decimal text with the model's f64Display (Rust's shortest round-trip Display, itself run against the "
                    "standard library on a few thousand bit patterns per run: family FD)"],
}

PROPS["C17"] = {
    "families": ["C17"],
    "nontrivial": lambda line, out: out.startswith("ok:") or (line.startswith("KYE") and len(out) > 10),
    "rule": "resources/kytea-model.bin (whole and every 5th / every truncation point) and 40 (quick) / 250 (thorough) abstract KyTea "
            "descriptions (windows 1..3, up to 30 character n-grams and 12 type n-grams incl. the 0x04 letter, stored vectors sometimes "
            "longer than the window needs, 0..8 dictionaries with membership masks, 0..3 tag slots) encoded to files by the harness's "
            "Rust encoder AND by the Lean encoder (bytes compared), converted by the REAL reader + TryFrom; every ~60th (quick) / every "
            "(thorough) truncation point; each description additionally in two files whose ignored parts carry content (tag models, global tags, "
            "self/subword dictionaries, tag vectors, inherited Aho-Corasick outputs and failure links) as raw-byte cases with expected result; "
            "type n-grams with letters outside DRHTKO must be rejected; the real convert_kytea_model tool on whole and truncated files; "
            "non-trivial = distinct case that produced a file or a converted model",
    "scopes": {"quick": "every 5th prefix of resources/kytea-model.bin; ~60 prefixes of each generated file", "thorough": "every truncation point"},
    "bin_build": extras.build_repo_bins,
    "extras": [extras.c17_cli_convert],
    "assumptions": ["f64 fields of the KyTea file are opaque 8-byte fields"],
}
PROPS["C18"] = {
    "families": ["C18"],
    "nontrivial": _pred_ok,
    "rule": "the union of the C08 histories (updates incl. failing ones, four predictors, fill_tags, resets, writes, all four filters), "
            "the C06 tag cases, the C14 serialise->deserialise predictor pairs and the C15 filter cases (grapheme-rich texts), run in a "
            "build with debug assertions and overflow checks so that every debug_assert! guarding an unchecked access and std's "
            "unsafe-precondition checks panic; judged on 'no operation panics' and on agreement with the model (whose unchecked "
            "accesses are checked ones yielding ub); thorough tier: ~130 small-model histories additionally executed under Miri; non-trivial = distinct case whose operations returned",
    "scopes": {},
    "extras": [extras.miri_c18],
    "assumptions": ["memory safety inside daachorse and hashbrown and of deserialize_unchecked on self-produced bytes is outside the model"],
}

SETUP_EXTRA = [extras.build_repo_bins, extras.build_train_hooks, extras.setup_feature_builds, extras.build_tantivy, extras.build_examples]
